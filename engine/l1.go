package engine

// L1: bounded model checking of scheduler/scheduler.go (real SSA) under a
// symbolic scheduler. One Cube = one DAG shape x N x mode x emitter; schedule,
// job outcomes, cancellation instants and tick instants are solver variables.

import (
	"fmt"
	"go/types"
	"os"
	"sort"
	"strings"
	"time"

	"golang.org/x/tools/go/ssa"
)

const SchedPkg = "go.uber.org/cff/scheduler"

// Job outcomes (values of the out_k variables)
const (
	OutOK = iota
	OutErr
	OutGoexit
	OutCancel       // cancels the context, then returns nil
	OutHang         // never returns
	OutErrCanceled  // returns an error that is context.Canceled although the directive's context is live
	OutCancelGoexit // cancels the context the job was enqueued with, then exits its goroutine (runtime.Goexit)
)

type Cube struct {
	ID       string
	Deps     [][]int // Deps[k] = dependency sequence of job k (indices < k)
	N        int
	Continue bool
	Emitter  bool
	Outcomes []int   // allowed outcomes
	PerJob   [][]int `json:",omitempty"` // optional per-job restriction of the outcome set
	MaxGoex  int     // bound on number of Goexit outcomes
	PreCanc  bool    // context may already be cancelled before the call
	Timer    bool    // a timer may cancel the context at any step
	Ticks    int
	K        int  // steps (0 = default)
	Race     bool `json:",omitempty"` // weave the happens-before monitor (C12)
	// Hunt: bug-hunting cube. Only the obligation whose name contains this
	// string is asked, under a short time limit; "unsat" discharges it,
	// "unknown" is recorded as undecided and is not part of the claim (the
	// full proof of the cube lives in the thorough tier).
	Hunt string `json:",omitempty"`
	// SameErr: every failing job returns the same error value (shared sentinel).
	SameErr bool `json:",omitempty"`
	// JobCtx: the jobs are enqueued with their own context (pre-cancelled or
	// not: solver's choice) while Wait is called with a context that stays live.
	JobCtx bool `json:",omitempty"`
	// Extra: a cube beyond the registered bound (thorough tier only). When the
	// solver cannot decide it within the time limit it is reported as undecided
	// and outside the claim instead of making the check inconclusive.
	Extra bool `json:",omitempty"`
	Mid   int  // number of jobs enqueued only after an explicit pause marker (unused)
}

func (c *Cube) J() int { return len(c.Deps) }

func (c *Cube) String() string {
	var ds []string
	for _, d := range c.Deps {
		ds = append(ds, strings.Trim(strings.Replace(fmt.Sprint(d), " ", ",", -1), "[]"))
	}
	mode := "ff"
	if c.Continue {
		mode = "coe"
	}
	em := ""
	if c.Emitter {
		em = fmt.Sprintf("+em%d", c.Ticks)
	}
	per := ""
	if len(c.PerJob) > 0 {
		per = fmt.Sprintf(" perjob=%v", c.PerJob)
	}
	if c.JobCtx {
		per += " jobctx"
	}
	if c.SameErr {
		per += " same-error"
	}
	return fmt.Sprintf("J%d[%s]N%d%s%s out=%v%s g%d pre=%v tmr=%v", c.J(), strings.Join(ds, "|"), c.N, mode, em, c.Outcomes, per, c.MaxGoex, c.PreCanc, c.Timer)
}

// HarnessSource renders the overlay file declaring one harness per cube.
func HarnessSource(cubes []*Cube) string {
	var sb strings.Builder
	sb.WriteString(`package scheduler

import "context"

func verifNdCtx() context.Context
func verifNdJobCtx() context.Context
func verifNdJob(k int) func(context.Context) error
func verifNdReturned(err error)
func verifNdSubmitted(hasDeps bool)
func verifNdEnqueueing(k int)
func verifNdEmit(pending, ready, waiting, idle, conc int)

type verifEmitter struct{}

func (verifEmitter) Emit(s State) {
	verifNdEmit(s.Pending, s.Ready, s.Waiting, s.IdleWorkers, s.Concurrency)
}

`)
	sb.WriteString(`func verifNdObserve(concurrency, capDone int)

// default concurrency limit (C03): nothing is enqueued, only New is examined
func verifHarness_default() {
	s := Config{}.New()
	verifNdObserve(s.concurrency, cap(s.donec))
}

`)
	for _, c := range cubes {
		fmt.Fprintf(&sb, "func verifHarness_%s() {\n\tctx := verifNdCtx()\n", c.ID)
		jctx := "ctx"
		if c.JobCtx {
			sb.WriteString("\tjctx := verifNdJobCtx()\n")
			jctx = "jctx"
		}
		em := ""
		if c.Emitter {
			em = ", Emitter: verifEmitter{}"
		}
		fmt.Fprintf(&sb, "\ts := Config{Concurrency: %d, ContinueOnError: %v%s}.New()\n", c.N, c.Continue, em)
		used := map[int]bool{}
		for _, d := range c.Deps {
			for _, x := range d {
				used[x] = true
			}
		}
		for k, d := range c.Deps {
			lhs := fmt.Sprintf("j%d := ", k)
			if !used[k] {
				lhs = ""
			}
			deps := ""
			if len(d) > 0 {
				var ds []string
				for _, x := range d {
					ds = append(ds, fmt.Sprintf("j%d", x))
				}
				deps = fmt.Sprintf(", Dependencies: []*ScheduledJob{%s}", strings.Join(ds, ", "))
			}
			fmt.Fprintf(&sb, "\tverifNdEnqueueing(%d)\n\t%ss.Enqueue(%s, Job{Run: verifNdJob(%d)%s})\n\tverifNdSubmitted(%v)\n", k, lhs, jctx, k, deps, len(d) > 0)
		}
		sb.WriteString("\terr := s.Wait(ctx)\n\tverifNdReturned(err)\n}\n\n")
	}
	return sb.String()
}

// L1 holds the unrolled system of one cube plus its monitors.
type L1 struct {
	Cube *Cube
	E    *Engine
	S    *Sys

	started, ended, endedOK, failed, goexited, errCanc []int // ghost Bool cells per job
	running                                            int   // BV8
	submitted, submittedDeps                           int   // BV8
	emits                                              int   // BV8 number of state reports
	ctxChan                                            *Obj
	jobCtxChan                                         *Obj
	jobCtxCancelled                                    *Term
	retErr                                             int // 2 cells: tag,data
	returned                                           int // Bool
	emitAfterReturn                                    int
	Out                                                []*Term
	preCancel                                          *Term
	timerArmed                                         *Term
	timerFired                                         int
	tickerStopped, tickerTicks                         int
	tickerChan                                         *Obj
	tickerMade                                         bool
	errInvalid                                         Value
	startedAt                                          [][]*Term // [t][k], t=0 is the state before step 0
}

const (
	errDataCanceled = 1
	errDataDeadline = 2
	errDataJobBase  = 1000
	errDataNewBase  = 2000
)

func (l *L1) cell(w int, label string) int { return l.E.newObj([]int{w}, ObjPlain, label).Base }

func NewL1(P *Program, c *Cube) *L1 {
	e := NewEngine(P)
	l := &L1{Cube: c, E: e}
	B := e.B
	J := c.J()
	for k := 0; k < J; k++ {
		l.started = append(l.started, l.cell(0, fmt.Sprintf("started%d", k)))
		l.ended = append(l.ended, l.cell(0, fmt.Sprintf("ended%d", k)))
		l.endedOK = append(l.endedOK, l.cell(0, fmt.Sprintf("endedOK%d", k)))
		l.failed = append(l.failed, l.cell(0, fmt.Sprintf("failed%d", k)))
		l.goexited = append(l.goexited, l.cell(0, fmt.Sprintf("goexited%d", k)))
		l.errCanc = append(l.errCanc, l.cell(0, fmt.Sprintf("errCanc%d", k)))
		l.Out = append(l.Out, B.Var(fmt.Sprintf("out_%d", k), 8))
	}
	l.running = l.cell(8, "running")
	l.submitted = l.cell(8, "submitted")
	l.submittedDeps = l.cell(8, "submittedDeps")
	l.emits = l.cell(8, "emits")
	l.returned = l.cell(0, "returned")
	l.emitAfterReturn = l.cell(0, "emitAfterReturn")
	l.retErr = e.newObj([]int{16, 64}, ObjPlain, "retErr").Base
	l.timerFired = l.cell(0, "timerFired")
	l.tickerStopped = l.cell(0, "tickerStopped")
	l.tickerTicks = l.cell(8, "tickerTicks")
	l.preCancel = B.False
	if c.PreCanc {
		l.preCancel = B.Var("pre_cancel", 0)
	}
	l.timerArmed = B.False
	if c.Timer {
		l.timerArmed = B.Var("timer_armed", 0)
	}
	e.InitPkgs[SchedPkg] = true
	if c.Race {
		e.Race = NewRaceMon(e, 4+l.effN()*(1+c.MaxGoex))
	}
	e.DebugTypes = true
	e.PoolBound = func(fn *ssa.Function, instr ssa.Instruction) int {
		name := fn.String()
		switch {
		case strings.HasPrefix(name, "(*container/list.List)"):
			return J
		case name == "(*"+SchedPkg+".Scheduler).run":
			if _, ok := instr.(*ssa.Call); ok { // append growth
				return J*(J-1)/2 + 1
			}
			if _, ok := instr.(*ssa.Alloc); ok { // varargs array for append
				return J * 3
			}
		}
		return 1
	}
	e.AppendBound = func(fn *ssa.Function) int { return J }
	if os.Getenv("VERIF_INTBOUND") != "" {
		e.IntBound = J + l.effN() + 3
	}
	if os.Getenv("VERIF_REALLIST") == "" {
		e.InstallListStub(func() int { return J })
	}
	l.installIntrinsics()
	return l
}

func opaqueErr(B *TB, data uint64) Value { return Value{B.BV(16, TagOpaqErr), B.BV(64, data)} }
func nilIface(B *TB) Value               { return Value{B.BV(16, 0), B.BV(64, 0)} }

func (l *L1) ctxDone(p *Path) *Term { return l.E.chanClosed(p, l.ctxChan) }

// errDataOf: the identity of the error job k returns when it fails. In SameErr
// cubes every job returns the same error value (a shared sentinel).
func (l *L1) errDataOf(k int) uint64 {
	if l.Cube.SameErr {
		return errDataJobBase
	}
	return errDataJobBase + uint64(k)
}

// jobCtxDone: the context the jobs were enqueued with is done.
func (l *L1) jobCtxDone(p *Path) *Term {
	if l.jobCtxChan != nil {
		return l.E.chanClosed(p, l.jobCtxChan)
	}
	return l.ctxDone(p)
}

func (l *L1) jobCtxVal() Value {
	B := l.E.B
	if l.jobCtxChan != nil {
		return Value{B.BV(16, TagCtx), B.BV(64, uint64(l.jobCtxChan.Base))}
	}
	return Value{B.BV(16, TagCtx), B.BV(64, uint64(l.ctxChan.Base))}
}

// doneOf: the Done state of the context value recv (one of the two contexts of the cube).
func (l *L1) doneOf(p *Path, recv Value) *Term {
	B := l.E.B
	if l.jobCtxChan == nil {
		return l.ctxDone(p)
	}
	return B.Ite(B.Eq(recv[1], B.BV(64, uint64(l.jobCtxChan.Base))), l.E.chanClosed(p, l.jobCtxChan), l.ctxDone(p))
}

func (l *L1) installIntrinsics() {
	e := l.E
	B := e.B
	c := l.Cube
	I := e.Intrinsics
	I["errors.New"] = func(e *Engine, p *Path, ic *ICall) {
		s := ic.Args[0][0]
		ic.Return(e, p, Value{B.BV(16, TagOpaqErr), B.Add(s, B.BV(64, errDataNewBase))})
	}
	I["errors.Is"] = func(e *Engine, p *Path, ic *ICall) {
		ic.Return(e, p, Value{l.errorsIs(p, ic.Args[0], ic.Args[1])})
	}
	I["go.uber.org/multierr.Append"] = func(e *Engine, p *Path, ic *ICall) {
		ic.Return(e, p, l.multierrAppend(p, ic, ic.Args[0], ic.Args[1]))
	}
	I["runtime.GOMAXPROCS"] = func(e *Engine, p *Path, ic *ICall) {
		ic.Return(e, p, Value{B.Var("gomaxprocs", 64)})
	}
	I["time.NewTicker"] = func(e *Engine, p *Path, ic *ICall) { l.newTicker(p, ic) }
	I["(*time.Ticker).Stop"] = func(e *Engine, p *Path, ic *ICall) {
		p.Store(e, l.tickerStopped, B.True)
		ic.Return(e, p, Value{})
	}
	pfx := SchedPkg + "."
	I[pfx+"verifNdCtx"] = func(e *Engine, p *Path, ic *ICall) {
		if l.ctxChan == nil {
			ptr := e.makeChan(p, types.NewStruct(nil, nil), 0, "ctxchan")
			l.ctxChan = e.ObjAt(ptr.Val)
			p.Store(e, l.ctxChan.Base, l.preCancel)
		}
		ic.Return(e, p, Value{B.BV(16, TagCtx), B.BV(64, uint64(l.ctxChan.Base))})
	}
	I[pfx+"verifNdJobCtx"] = func(e *Engine, p *Path, ic *ICall) {
		if l.jobCtxChan == nil {
			ptr := e.makeChan(p, types.NewStruct(nil, nil), 0, "jobctxchan")
			l.jobCtxChan = e.ObjAt(ptr.Val)
			l.jobCtxCancelled = B.Var("jobctx_cancelled", 0)
			p.Store(e, l.jobCtxChan.Base, l.jobCtxCancelled)
		}
		ic.Return(e, p, l.jobCtxVal())
	}
	I[pfx+"verifNdJob"] = func(e *Engine, p *Path, ic *ICall) {
		k := ic.Args[0][0]
		if !k.IsConst() {
			unsupported("verifNdJob with symbolic index")
		}
		ic.Return(e, p, Value{e.StubFunc(&Stub{Name: "job", K: int(k.Val)})})
	}
	I[pfx+"verifNdSubmitted"] = func(e *Engine, p *Path, ic *ICall) {
		sb, _ := B.ClampSigned(B.Add(p.Load(e, l.submitted), B.BV(8, 1)), 0, int64(c.J()))
		sd, _ := B.ClampSigned(B.Add(p.Load(e, l.submittedDeps), B.BoolToBV(ic.Args[0][0], 8)), 0, int64(c.J()))
		p.Store(e, l.submitted, sb)
		p.Store(e, l.submittedDeps, sd)
		ic.Return(e, p, Value{})
	}
	I[pfx+"verifNdEnqueueing"] = func(e *Engine, p *Path, ic *ICall) {
		if e.Race != nil {
			e.Race.Snapshot(p, p.Cur.Pid, fmt.Sprintf("enq%d", ic.Args[0][0].Val))
		}
		ic.Return(e, p, Value{})
	}
	I[pfx+"verifNdReturned"] = func(e *Engine, p *Path, ic *ICall) {
		if e.Race != nil {
			// K6: every body's end happens-before a nil return of Wait
			isNil := B.Eq(ic.Args[0][0], B.BV(16, 0))
			bad := B.False
			for k := range l.started {
				bad = B.Or(bad, B.And(p.Load(e, l.ended[k]), B.Not(e.Race.Leq(p, fmt.Sprintf("end%d", k), p.Cur.Pid))))
			}
			e.RaiseFlag(p, "C12hb", B.And(isNil, bad))
		}
		p.Store(e, l.returned, B.True)
		p.Store(e, l.retErr, ic.Args[0][0])
		p.Store(e, l.retErr+1, ic.Args[0][1])
		l.atReturn(p, ic.Args[0])
		ic.Return(e, p, Value{})
	}
	I[pfx+"verifNdEmit"] = func(e *Engine, p *Path, ic *ICall) {
		l.atEmit(p, ic.Args)
		ic.Return(e, p, Value{})
	}
	e.InvokeHook = func(e *Engine, p *Path, tag uint64, method string, recv Value, ic *ICall) bool {
		if tag != TagCtx {
			return false
		}
		switch method {
		case "Done":
			ic.Return(e, p, Value{recv[1]})
			return true
		case "Err":
			if !l.cancellable() {
				// no cancellation source in this cube: the read is local
				ic.Return(e, p, nilIface(B))
				return true
			}
			e.park(p) // reading the context's state is a synchronisation point
			return true
		}
		return false
	}
	e.SyncInvoke = func(s *Sys, pr *Proc, cfg *Config, in *ssa.Call) []variant {
		if in.Call.Method.Name() != "Err" {
			return nil
		}
		return []variant{{what: "ctx.Err", en: B.True, extra: B.True, apply: func(q *Path) {
			done := l.doneOf(q, e.Eval(q.Cur.top(), in.Call.Value))
			if e.Race != nil {
				e.Race.Acquire(q, q.Cur.Pid, fmt.Sprintf("close%d", l.ctxChan.Base), done)
			}
			e.finish(q.Cur.top(), in, e.iteVal(done, opaqueErr(B, errDataCanceled), nilIface(B)))
		}}}
	}
	e.StubHandlers["job"] = &StubHandler{
		Start: func(e *Engine, p *Path, st *Stub, ic *ICall) {
			k := st.K
			bad := p.Load(e, l.started[k])
			for _, d := range c.Deps[k] {
				bad = B.Or(bad, B.Not(p.Load(e, l.endedOK[d])))
			}
			e.RaiseFlag(p, "C01", bad)
			e.RaiseFlag(p, "C09start", l.jobCtxDone(p))
			// the job must be handed the context it was enqueued with
			e.RaiseFlag(p, "C09ctx", B.Not(e.valEq(ic.Args[0], l.jobCtxVal())))
			if e.Race != nil {
				// K6: the Enqueue call and the end of every dependency's body happen-before the body's start
				hb := e.Race.Leq(p, fmt.Sprintf("enq%d", k), p.Cur.Pid)
				for _, d := range c.Deps[k] {
					hb = B.And(hb, e.Race.Leq(p, fmt.Sprintf("end%d", d), p.Cur.Pid))
				}
				e.RaiseFlag(p, "C12hb", B.Not(hb))
			}
			p.Store(e, l.started[k], B.True)
			r := B.Add(p.Load(e, l.running), B.BV(8, 1))
			e.RaiseFlag(p, "C03", B.Ult(B.BV(8, uint64(l.effN())), r))
			r, _ = B.ClampSigned(r, 0, int64(l.effN()+1)) // saturate: the flag above is sticky
			p.Store(e, l.running, r)
		},
		Variants: func(s *Sys, pre *Path, st *Stub, args []Value) []StubVariant {
			k := st.K
			out := l.Out[k]
			common := func(q *Path) {
				if e.Race != nil && q.Cur != nil {
					e.Race.Snapshot(q, q.Cur.Pid, fmt.Sprintf("end%d", k))
					e.Race.tick(q, q.Cur.Pid)
				}
				q.Store(e, l.ended[k], B.True)
				q.Store(e, l.running, B.Sub(q.Load(e, l.running), B.BV(8, 1)))
			}
			var vs []StubVariant
			for _, o := range c.Outcomes {
				switch o {
				case OutOK:
					vs = append(vs, StubVariant{What: "ok", En: B.Eq(out, B.BV(8, OutOK)), Apply: func(e *Engine, q *Path, ic *ICall) {
						common(q)
						q.Store(e, l.endedOK[k], B.True)
						ic.Return(e, q, nilIface(B))
					}})
				case OutErr:
					vs = append(vs, StubVariant{What: "err", En: B.Eq(out, B.BV(8, OutErr)), Apply: func(e *Engine, q *Path, ic *ICall) {
						common(q)
						q.Store(e, l.failed[k], B.True)
						ic.Return(e, q, opaqueErr(B, l.errDataOf(k)))
					}})
				case OutGoexit:
					vs = append(vs, StubVariant{What: "goexit", En: B.Eq(out, B.BV(8, OutGoexit)), Apply: func(e *Engine, q *Path, ic *ICall) {
						common(q)
						q.Store(e, l.failed[k], B.True)
						q.Store(e, l.goexited[k], B.True)
						e.raisePanic(q, nil, true)
					}})
				case OutCancelGoexit:
					vs = append(vs, StubVariant{What: "cancelgoexit", En: B.Eq(out, B.BV(8, OutCancelGoexit)), Apply: func(e *Engine, q *Path, ic *ICall) {
						common(q)
						ch := l.ctxChan
						if l.jobCtxChan != nil {
							ch = l.jobCtxChan
						}
						if e.Race != nil {
							e.Race.ReleaseJoin(q, q.Cur.Pid, fmt.Sprintf("close%d", ch.Base))
						}
						q.Store(e, ch.Base, B.True)
						q.Store(e, l.failed[k], B.True)
						q.Store(e, l.goexited[k], B.True)
						e.raisePanic(q, nil, true)
					}})
				case OutCancel:
					vs = append(vs, StubVariant{What: "cancel", En: B.Eq(out, B.BV(8, OutCancel)), Apply: func(e *Engine, q *Path, ic *ICall) {
						common(q)
						if e.Race != nil {
							e.Race.ReleaseJoin(q, q.Cur.Pid, fmt.Sprintf("close%d", l.ctxChan.Base))
						}
						q.Store(e, l.ctxChan.Base, B.True)
						q.Store(e, l.endedOK[k], B.True)
						ic.Return(e, q, nilIface(B))
					}})
				case OutErrCanceled:
					vs = append(vs, StubVariant{What: "errcanceled", En: B.Eq(out, B.BV(8, OutErrCanceled)), Apply: func(e *Engine, q *Path, ic *ICall) {
						common(q)
						q.Store(e, l.failed[k], B.True)
						q.Store(e, l.errCanc[k], B.True)
						ic.Return(e, q, opaqueErr(B, errDataCanceled))
					}})
				case OutHang:
					// never enabled
				}
			}
			return vs
		},
	}
}

func (l *L1) cancellable() bool {
	return l.Cube.PreCanc || l.Cube.Timer || l.Cube.JobCtx || has(l.Cube.Outcomes, OutCancel) || has(l.Cube.Outcomes, OutCancelGoexit)
}

func (l *L1) effN() int {
	if l.Cube.N == 0 {
		return 4
	}
	return l.Cube.N
}

const multiCap = 6

func (l *L1) errorsIs(p *Path, err, target Value) *Term {
	return l.E.ErrorsIs(p, err, target, multiCap)
}

func (l *L1) multiItems(p *Path, err Value) (*Term, []Value) {
	return l.E.MultiItems(p, err, multiCap)
}

func (l *L1) multierrAppend(p *Path, ic *ICall, left, right Value) Value {
	return l.E.MultiAppend(p, ic, left, right, multiCap)
}

func (l *L1) newTicker(p *Path, ic *ICall) {
	e := l.E
	B := e.B
	tt := ic.Fn.Signature.Results().At(0).Type().(*types.Pointer).Elem()
	st := tt.Underlying().(*types.Struct)
	timeT := st.Field(0).Type().Underlying().(*types.Chan).Elem()
	ch := e.makeChan(p, timeT, 1, "tickerchan")
	l.tickerChan = e.ObjAt(ch.Val)
	l.tickerMade = true
	ptr := e.allocPool(p, "ticker", e.Layout(tt), ObjPlain, "ticker", 1, func(o *Obj) { o.Typ = tt })
	e.StoreVal(p, B.Add(ptr, B.BV(64, uint64(e.fieldOffset(st, 0)))), Value{ch})
	ic.Return(e, p, Value{ptr})
}

// atReturn: obligations evaluated when the caller gets Wait's result.
func (l *L1) atReturn(p *Path, err Value) {
	e := l.E
	B := e.B
	c := l.Cube
	J := c.J()
	isNil := B.Eq(err[0], B.BV(16, 0))
	ctxDone := l.ctxDone(p)
	allOK := B.True
	for k := 0; k < J; k++ {
		allOK = B.And(allOK, p.Load(e, l.started[k]), p.Load(e, l.endedOK[k]))
	}
	if !c.Continue {
		// C07: nil => everything ran and succeeded, context live
		e.RaiseFlag(p, "C07nil", B.And(isNil, B.Not(B.And(allOK, B.Not(ctxDone)))))
		// non-nil => the error of a job that actually failed, or the context's error
		legit := B.And(ctxDone, e.valEq(err, opaqueErr(B, errDataCanceled)))
		anyGoexit := B.False
		for k := 0; k < J; k++ {
			legit = B.Or(legit, B.And(p.Load(e, l.failed[k]), B.Not(p.Load(e, l.goexited[k])), B.Not(p.Load(e, l.errCanc[k])), e.valEq(err, opaqueErr(B, l.errDataOf(k)))))
			legit = B.Or(legit, B.And(p.Load(e, l.errCanc[k]), e.valEq(err, opaqueErr(B, errDataCanceled))))
			anyGoexit = B.Or(anyGoexit, p.Load(e, l.goexited[k]))
		}
		legit = B.Or(legit, B.And(anyGoexit, e.valEq(err, opaqueErr(B, errDataNewBase+e.Str("job exited unexpectedly")))))
		e.RaiseFlag(p, "C07err", B.And(B.Not(isNil), B.Not(legit)))
	} else {
		l.atReturnContinue(p, err)
	}
	// C09: a cancelled context never yields a nil result
	e.RaiseFlag(p, "C09ret", B.And(isNil, ctxDone))
}

func (l *L1) atReturnContinue(p *Path, err Value) {
	e := l.E
	B := e.B
	c := l.Cube
	J := c.J()
	ctxDone := l.ctxDone(p)
	// Wait may have returned early through ctx.Done(); the decomposition
	// claims apply when the loop finished, i.e. the context is live.
	live := B.Not(ctxDone)
	// transitive success of dependencies
	depsOK := make([]*Term, J)
	for k := 0; k < J; k++ {
		ok := B.True
		for _, d := range c.Deps[k] {
			ok = B.And(ok, depsOK[d], p.Load(e, l.endedOK[d]))
		}
		depsOK[k] = ok
	}
	bad := B.False
	for k := 0; k < J; k++ {
		st := p.Load(e, l.started[k])
		bad = B.Or(bad, B.Not(B.Eq(st, depsOK[k])))
	}
	e.RaiseFlag(p, "C08run", B.And(live, bad))
	// error decomposition
	n, items := l.multiItems(p, err)
	want := B.BV(8, 0)
	wrong := B.False
	exitErr := opaqueErr(B, errDataNewBase+e.Str("job exited unexpectedly"))
	nGoexit := B.BV(8, 0)
	for k := 0; k < J; k++ {
		f := p.Load(e, l.failed[k])
		g := p.Load(e, l.goexited[k])
		want = B.Add(want, B.BoolToBV(f, 8))
		nGoexit = B.Add(nGoexit, B.BoolToBV(g, 8))
		// each plain failure appears exactly once
		cnt := B.BV(8, 0)
		for i, it := range items {
			cnt = B.Add(cnt, B.BoolToBV(B.And(B.Ult(B.BV(8, uint64(i)), n), e.valEq(it, opaqueErr(B, l.errDataOf(k)))), 8))
		}
		// ... as often as there are failed jobs returning that very error value
		wantK := B.BV(8, 0)
		for j := 0; j < J; j++ {
			if l.errDataOf(j) == l.errDataOf(k) {
				wantK = B.Add(wantK, B.BoolToBV(B.And(p.Load(e, l.failed[j]), B.Not(p.Load(e, l.goexited[j]))), 8))
			}
		}
		wrong = B.Or(wrong, B.Not(B.Eq(cnt, wantK)))
	}
	cntExit := B.BV(8, 0)
	for i, it := range items {
		cntExit = B.Add(cntExit, B.BoolToBV(B.And(B.Ult(B.BV(8, uint64(i)), n), e.valEq(it, exitErr)), 8))
		// no internal sentinel
		wrong = B.Or(wrong, B.And(B.Ult(B.BV(8, uint64(i)), n), e.valEq(it, l.errInvalid)))
	}
	wrong = B.Or(wrong, B.Not(B.Eq(cntExit, nGoexit)), B.Not(B.Eq(n, want)))
	e.RaiseFlag(p, "C08err", B.And(live, wrong))
	// with cancellation: only context errors may be added
	extra := B.False
	for i, it := range items {
		in := B.Ult(B.BV(8, uint64(i)), n)
		known := B.Or(e.valEq(it, opaqueErr(B, errDataCanceled)), e.valEq(it, exitErr))
		for k := 0; k < J; k++ {
			known = B.Or(known, B.And(p.Load(e, l.failed[k]), e.valEq(it, opaqueErr(B, l.errDataOf(k)))))
		}
		extra = B.Or(extra, B.And(in, B.Not(known)))
	}
	e.RaiseFlag(p, "C08ctx", extra)
}

// atEmit: C19 consistency of one state report.
func (l *L1) atEmit(p *Path, a []Value) {
	e := l.E
	B := e.B
	// the counts are compared in 16-bit arithmetic: every count is bounded by
	// the number of jobs (a count outside the 16-bit range is flagged)
	const w = 16
	var wide *Term = B.False
	nar := func(t *Term) *Term {
		lo := B.Extract(w-1, 0, t)
		wide = B.Or(wide, B.Not(B.Eq(B.Sext(lo, 64), t)))
		return lo
	}
	pending, ready, waiting, idle, conc := nar(a[0][0]), nar(a[1][0]), nar(a[2][0]), nar(a[3][0]), nar(a[4][0])
	z := B.BV(w, 0)
	N := B.BV(w, uint64(l.effN()))
	neg := B.Or(B.Slt(pending, z), B.Slt(ready, z), B.Slt(waiting, z), B.Slt(idle, z))
	exec := B.Sub(B.Sub(pending, ready), waiting)
	bad := B.Or(neg,
		B.Slt(exec, z), B.Slt(N, exec),
		B.Not(B.Eq(idle, B.Sub(N, exec))),
		B.Not(B.Eq(conc, N)),
		B.Slt(B.Zext(p.Load(e, l.submitted), w), pending),
		B.Slt(B.Zext(p.Load(e, l.submittedDeps), w), waiting), wide)
	e.RaiseFlag(p, "C19", bad)
	e.RaiseFlag(p, "C19after", p.Load(e, l.returned))
	p.Store(e, l.emits, B.BV(8, 1))
}

// Build unrolls the cube.
func (l *L1) Build() {
	e := l.E
	B := e.B
	c := l.Cube
	P := e.P
	// package init (sequential)
	initFn := P.SSA[SchedPkg].Func("init")
	e.Concurrent = false
	paths := e.RunSequential(initFn, nil, nil)
	if len(paths) != 1 {
		unsupported("package init forked into %d paths", len(paths))
	}
	e.init = paths[0].Heap
	// the sentinel errors of package context are the engine's context errors
	if cp := P.SSA["context"]; cp != nil {
		for name, data := range map[string]uint64{"Canceled": errDataCanceled, "DeadlineExceeded": errDataDeadline} {
			if gv := cp.Var(name); gv != nil {
				a := e.globalAddr(gv) - AddrBase
				for len(e.init) <= a+1 {
					e.init = append(e.init, nil)
				}
				e.init[a] = B.BV(16, TagOpaqErr)
				e.init[a+1] = B.BV(64, data)
			}
		}
	}
	g := P.SSA[SchedPkg].Var("errJobInvalid")
	ip := &Path{Guard: B.True, Heap: e.init}
	ga := e.globalAddr(g)
	l.errInvalid = Value{ip.Load(e, ga), ip.Load(e, ga+1)}
	entry := P.SSA[SchedPkg].Func("verifHarness_" + c.ID)
	if entry == nil {
		unsupported("harness for cube %s not found", c.ID)
	}
	s := NewSys(e)
	l.S = s
	s.MaxGen = 2 + c.MaxGoex
	s.Verbose = os.Getenv("VERIF_VERBOSE") != ""
	s.SymmetricPeers = os.Getenv("VERIF_NOSYM") == ""
	s.POR = os.Getenv("VERIF_NOPOR") == ""
	s.OneHot = os.Getenv("VERIF_NOONEHOT") == ""
	s.Start(entry, nil)
	// environment processes
	if c.Timer {
		s.AddNative(&Native{Name: "timer",
			En: func(s *Sys) *Term {
				return B.And(l.timerArmed, B.Not(s.Load(l.timerFired)))
			},
			Apply: func(s *Sys, q *Path) {
				q.Store(e, l.timerFired, B.True)
				q.Store(e, l.ctxChan.Base, B.True)
			}})
	}
	if l.tickerMade && c.Ticks > 0 {
		s.AddNative(&Native{Name: "ticker", Conflicts: func(pr *Proc) bool { return strings.HasPrefix(pr.Label, "run<-") },
			En: func(s *Sys) *Term {
				pre := s.pre()
				return B.And(B.Not(pre.Load(e, l.tickerStopped)),
					B.Ult(pre.Load(e, l.tickerTicks), B.BV(8, uint64(c.Ticks))),
					B.Eq(e.chanCount(pre, l.tickerChan), B.BV(8, 0)))
			},
			Apply: func(s *Sys, q *Path) {
				tk, _ := B.ClampSigned(B.Add(q.Load(e, l.tickerTicks), B.BV(8, 1)), 0, int64(c.Ticks))
				q.Store(e, l.tickerTicks, tk)
				q.Store(e, l.tickerChan.Base+1, B.BV(8, 1))
			}})
	}
	K := c.K
	if K == 0 {
		K = 8*c.J() + l.effN() + 8 + 2*c.Ticks
		if !l.cancellable() {
			K -= c.J() + 1
		}
		if c.Timer {
			K++
		}
	}
	snap := func() {
		var row []*Term
		for k := range l.started {
			row = append(row, s.Load(l.started[k]))
		}
		l.startedAt = append(l.startedAt, row)
	}
	snap()
	for t := 0; t < K; t++ {
		s.Step()
		snap()
	}
	// outcome domain
	for k := range l.Out {
		dom := B.False
		set := c.Outcomes
		if k < len(c.PerJob) && len(c.PerJob[k]) > 0 {
			set = c.PerJob[k]
		}
		for _, o := range set {
			dom = B.Or(dom, B.Eq(l.Out[k], B.BV(8, uint64(o))))
		}
		s.Constraints = append(s.Constraints, dom)
	}
	has := func(o int) bool {
		for _, x := range c.Outcomes {
			if x == o {
				return true
			}
		}
		return false
	}
	if has(OutGoexit) || has(OutCancelGoexit) {
		n := B.BV(8, 0)
		for k := range l.Out {
			n = B.Add(n, B.BoolToBV(B.Or(B.Eq(l.Out[k], B.BV(8, OutGoexit)), B.Eq(l.Out[k], B.BV(8, OutCancelGoexit))), 8))
		}
		s.Constraints = append(s.Constraints, B.Ule(n, B.BV(8, uint64(c.MaxGoex))))
	}
}

// Obligation is one solver query: Assert must be unsatisfiable together with
// the transition constraints (or satisfiable, for witnesses).
type Obligation struct {
	Prop     string
	Name     string
	Assert   *Term
	WantSat  bool
	Internal bool // bound / vacuity bookkeeping rather than a property
	Oracle   string
}

func (l *L1) flag(name string) *Term {
	a, ok := l.E.Flags[name]
	if !ok {
		return l.E.B.False
	}
	return l.S.Load(a)
}

func (l *L1) anyRunning() *Term {
	return l.E.B.Not(l.E.B.Eq(l.S.Load(l.running), l.E.B.BV(8, 0)))
}

func (l *L1) Obligations() []Obligation {
	e := l.E
	B := e.B
	s := l.S
	c := l.Cube
	enabled := s.EnabledTerm()
	returned := s.Load(l.returned)
	var obs []Obligation
	add := func(prop, name string, t *Term) { obs = append(obs, Obligation{Prop: prop, Name: name, Assert: t}) }
	wit := func(prop, name string, t *Term) {
		obs = append(obs, Obligation{Prop: prop, Name: name, Assert: t, WantSat: true, Internal: true})
	}
	obs = append(obs, Obligation{Prop: "bound", Name: "completeness: some process still enabled after K steps", Assert: enabled, Internal: true})
	obs = append(obs, Obligation{Prop: "bound", Name: "unwinding / pool bounds", Assert: l.flag("unwind"), Internal: true})
	obs = append(obs, Obligation{Prop: "fault", Name: "runtime fault (nil deref, index, closed channel) in scheduler code", Assert: l.flag("fault")})
	crashed := B.False
	for _, pr := range s.Procs {
		crashed = B.Or(crashed, pr.Crashed)
	}
	hang := B.False
	for k := range l.Out {
		hang = B.Or(hang, B.Eq(l.Out[k], B.BV(8, OutHang)))
	}
	add("C01", "job started twice or before a dependency succeeded", l.flag("C01"))
	add("C03", "more than N job bodies running at once", l.flag("C03"))
	add("C04", "a scheduler goroutine died with a panic", crashed)
	// C05: terminal state with the caller not returned (no job may hang)
	add("C05", "deadlock: nothing enabled, caller has not returned", B.And(B.Not(enabled), B.Not(returned), B.Not(hang)))
	// C06: terminal, returned, no body running, yet a goroutine is alive
	leak := B.False
	for _, pr := range s.Procs[1:] {
		if pr.Native != nil {
			continue
		}
		leak = B.Or(leak, pr.AliveTerm(B))
	}
	add("C06", "goroutine leak after return", B.And(B.Not(enabled), returned, B.Not(l.anyRunning()), leak))
	if !c.Continue {
		add("C07", "nil result although a job did not run successfully / ctx cancelled", l.flag("C07nil"))
		add("C07", "non-nil result that is not the error of a failed job nor ctx.Err()", l.flag("C07err"))
	} else {
		add("C08", "job ran iff all transitive dependencies succeeded (ctx live)", l.flag("C08run"))
		add("C08", "error decomposition = exactly the failed jobs, no sentinel", l.flag("C08err"))
		add("C08", "unknown error component", l.flag("C08ctx"))
	}
	if c.Race {
		add("C12", "data race: two conflicting accesses to scheduler memory not ordered by happens-before", l.flag("C12"))
		add("C12", "happens-before guarantee missing: Enqueue -> body start, dependency's end -> dependent's start, body end -> nil return of Wait", l.flag("C12hb"))
	}
	add("C09", "job body started although its context was done", l.flag("C09start"))
	add("C09", "job body received a context other than the one it was enqueued with", l.flag("C09ctx"))
	add("C09", "nil result although context cancelled", l.flag("C09ret"))
	if has(c.Outcomes, OutHang) {
		// prompt return: with a hanging body and a cancelled context the caller still returns
		add("C09", "caller stuck although context is done (hanging body)", B.And(B.Not(enabled), B.Not(returned), l.ctxDone(s.pre())))
	}
	if c.Emitter {
		add("C19", "inconsistent state report", l.flag("C19"))
		add("C19", "state report after Wait returned", l.flag("C19after"))
		wit("C19", "witness: a state report was emitted while a job was executing", B.And(B.Not(B.Eq(s.Load(l.emits), B.BV(8, 0))), returned))
	}
	// vacuity witnesses
	allStarted := B.True
	for k := range l.Out {
		allStarted = B.And(allStarted, s.Load(l.started[k]))
	}
	if len(c.PerJob) == 0 && has(c.Outcomes, OutOK) {
		wit("C01", "witness: every job ran and the caller returned", B.And(allStarted, returned))
	} else {
		// cubes with forced failures: not every job can run
		wit("C01", "witness: the first job ran and the caller returned", B.And(s.Load(l.started[0]), returned))
	}
	return obs
}

func has(xs []int, x int) bool {
	for _, y := range xs {
		if y == x {
			return true
		}
	}
	return false
}

// Schedule decoding -------------------------------------------------------

type SchedStep struct {
	T       int    `json:"t"`
	Pid     int    `json:"pid"`
	Proc    string `json:"proc"`
	What    string `json:"what"`
	Peer    int    `json:"peer"`
	Started []int  `json:"started,omitempty"`
}

// Decode extracts the schedule from a model over the step variables.
func (l *L1) Decode(eval func(t *Term) uint64) []SchedStep {
	var out []SchedStep
	for t, info := range l.S.Trace {
		for _, f := range info.Fires {
			if eval(f.G) != 0 {
				st := SchedStep{T: t, Pid: f.Pid, Proc: l.S.Procs[f.Pid].Label, What: f.What, Peer: -1}
				for _, pq := range f.PeerQ {
					if eval(pq.Cond) != 0 {
						st.Peer = pq.Pid
					}
				}
				for k := range l.started {
					if eval(l.startedAt[t+1][k]) != 0 && eval(l.startedAt[t][k]) == 0 {
						st.Started = append(st.Started, k)
					}
				}
				out = append(out, st)
			}
		}
	}
	return out
}

func (l *L1) ModelTerms() []*Term {
	var ts []*Term
	for _, info := range l.S.Trace {
		for _, f := range info.Fires {
			ts = append(ts, f.G)
			for _, pq := range f.PeerQ {
				ts = append(ts, pq.Cond)
			}
		}
	}
	ts = append(ts, l.Out...)
	for _, row := range l.startedAt {
		ts = append(ts, row...)
	}
	if l.Cube.PreCanc {
		ts = append(ts, l.preCancel)
	}
	if l.Cube.Timer {
		ts = append(ts, l.timerArmed)
	}
	if l.jobCtxCancelled != nil {
		ts = append(ts, l.jobCtxCancelled)
	}
	return ts
}

var _ = sort.Ints

// DefaultLimitResult: the C03 kernel for the default concurrency limit.
type DefaultLimitResult struct {
	MaxProcs int        `json:"gomaxprocs_range_upper"`
	Paths    int        `json:"paths"`
	Terms    int        `json:"terms"`
	Procs    int        `json:"worker_processes_created"`
	Obs      []ObResult `json:"obligations"`
	Error    string     `json:"error,omitempty"`
	Inconcl  bool       `json:"inconclusive,omitempty"`
	Failed   []string   `json:"failed,omitempty"`
	Witness  int64      `json:"witness_gomaxprocs,omitempty"`
	Disch    int        `json:"discharged"`
	Oblig    int        `json:"n_obligations"`
	SolveS   float64    `json:"solve_seconds"`
	Queries  int        `json:"queries"`
}

// RunDefaultLimit executes Config{}.New() with runtime.GOMAXPROCS(0) = g for
// a solver-chosen g in 1..G and checks: the limit is max(g,4), the results
// channel has that capacity and exactly that many workers are started.
func RunDefaultLimit(P *Program, G int, solver string, timeoutMs int) (res *DefaultLimitResult) {
	res = &DefaultLimitResult{MaxProcs: G}
	defer func() {
		if r := recover(); r != nil {
			if ee, ok := r.(EngineError); ok {
				res.Error = ee.Msg
				res.Inconcl = true
				return
			}
			panic(r)
		}
	}()
	l := NewL1(P, &Cube{ID: "default", Deps: [][]int{}, N: 0, Outcomes: []int{OutOK}})
	e := l.E
	B := e.B
	g := B.Var("gomaxprocs", 64)
	tree := B.BV(64, uint64(G))
	for v := G - 1; v >= 1; v-- {
		tree = B.Ite(B.Eq(g, B.BV(64, uint64(v))), B.BV(64, uint64(v)), tree)
	}
	inRange := B.And(B.Ule(B.BV(64, 1), g), B.Ule(g, B.BV(64, uint64(G))))
	e.Intrinsics["runtime.GOMAXPROCS"] = func(e *Engine, p *Path, ic *ICall) { ic.Return(e, p, Value{tree}) }
	workers := l.cell(8, "workersSpawned")
	e.SpawnHook = func(p *Path, callee string) {
		if callee == "worker" {
			p.Store(e, workers, B.Add(p.Load(e, workers), B.BV(8, 1)))
		}
	}
	e.Intrinsics[SchedPkg+".verifNdObserve"] = func(e *Engine, p *Path, ic *ICall) {
		conc, capv := ic.Args[0][0], ic.Args[1][0]
		want := B.Ite(B.Ult(tree, B.BV(64, 4)), B.BV(64, 4), tree)
		e.RaiseFlag(p, "limit", B.Not(B.Eq(conc, want)))
		e.RaiseFlag(p, "cap", B.Not(B.Eq(capv, want)))
		e.RaiseFlag(p, "workers", B.Not(B.Eq(B.Zext(p.Load(e, workers), 64), want)))
		e.RaiseFlag(p, "reached", B.True)
		ic.Return(e, p, Value{})
	}
	initFn := P.SSA[SchedPkg].Func("init")
	e.Concurrent = false
	paths := e.RunSequential(initFn, nil, nil)
	e.init = paths[0].Heap
	s := NewSys(e)
	l.S = s
	s.MaxGen = 3
	s.Start(P.SSA[SchedPkg].Func("verifHarness_default"), nil)
	res.Terms = B.NumTerms()
	for _, pr := range s.Procs {
		if strings.HasPrefix(pr.Label, "worker") {
			res.Procs++
		}
	}
	sv, err := NewSolver(B, solver, timeoutMs)
	if err != nil {
		res.Error = err.Error()
		res.Inconcl = true
		return
	}
	defer sv.Close()
	flag := func(n string) *Term {
		a, ok := e.Flags[n]
		if !ok {
			return B.False
		}
		return s.Load(a)
	}
	type ob struct {
		name string
		t    *Term
		sat  bool
	}
	obs := []ob{
		{"reachability: New returned for some GOMAXPROCS", flag("reached"), true},
		{"concurrency limit is max(GOMAXPROCS, 4)", flag("limit"), false},
		{"result channel capacity equals the limit", flag("cap"), false},
		{"exactly limit workers are started", flag("workers"), false},
		{"no runtime fault", flag("fault"), false},
		{"unwinding / pool bounds", flag("unwind"), false},
	}
	for _, o := range obs {
		t1 := time.Now()
		v, m, err := sv.Check([]*Term{o.t, inRange}, []*Term{g})
		res.SolveS += time.Since(t1).Seconds()
		res.Queries++
		if err != nil {
			res.Error = err.Error()
			v = Unknown
		}
		res.Obs = append(res.Obs, ObResult{Prop: "C03", Name: o.name, Verdict: v.String(), WantSat: o.sat, Seconds: time.Since(t1).Seconds()})
		switch {
		case v == Unknown:
			res.Inconcl = true
		case o.sat && v == Sat:
			res.Witness = int64(m[g.ID])
		case o.sat && v == Unsat:
			res.Inconcl = true
		case !o.sat:
			res.Oblig++
			if v == Unsat {
				res.Disch++
			} else {
				res.Failed = append(res.Failed, fmt.Sprintf("%s (GOMAXPROCS=%d)", o.name, m[g.ID]))
			}
		}
	}
	return res
}
