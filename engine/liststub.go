package engine

// Engine-level model of container/list (FIFO sequence of elements): the
// doubly-linked pointer structure of the standard library is replaced by a
// bounded position array. Trusted: container/list implements a sequence.
// Supported API: New, Len, Front, PushBack, Remove.

import (
	"fmt"
	"go/types"
)

type listModel struct {
	cap_ int
	len_ int   // address of BV64 length cell
	pos  []int // addresses of element-pointer cells
}

func (e *Engine) InstallListStub(capacity func() int) {
	models := map[uint64]*listModel{}
	B := e.B
	var elemT, listT types.Type
	types_ := func() bool {
		if elemT != nil {
			return true
		}
		sp := e.P.SSA["container/list"]
		if sp == nil {
			return false
		}
		elemT = sp.Type("Element").Type()
		listT = sp.Type("List").Type()
		return true
	}
	model := func(p *Path, l *Term) *listModel {
		if !l.IsConst() {
			unsupported("container/list stub: symbolic list pointer")
		}
		m := models[l.Val]
		if m == nil {
			unsupported("container/list stub: unknown list")
		}
		return m
	}
	valOff := func() int {
		st := elemT.Underlying().(*types.Struct)
		for i := 0; i < st.NumFields(); i++ {
			if st.Field(i).Name() == "Value" {
				return e.fieldOffset(st, i)
			}
		}
		panic("no Value field")
	}
	e.Intrinsics["container/list.New"] = func(e *Engine, p *Path, ic *ICall) {
		if !types_() {
			unsupported("container/list not loaded")
		}
		ptr := e.allocPool(p, "liststub|"+e.siteKey(p, ic.Site, ""), e.Layout(listT), ObjPlain, "list", 1, func(o *Obj) { o.Typ = listT })
		m := &listModel{cap_: capacity()}
		m.len_ = e.newObj([]int{64}, ObjPlain, "list.len").Base
		for i := 0; i < m.cap_; i++ {
			m.pos = append(m.pos, e.newObj([]int{64}, ObjPlain, fmt.Sprintf("list.pos%d", i)).Base)
		}
		models[ptr.Val] = m
		ic.Return(e, p, Value{ptr})
	}
	e.Intrinsics["(*container/list.List).Len"] = func(e *Engine, p *Path, ic *ICall) {
		m := model(p, ic.Args[0][0])
		ic.Return(e, p, Value{p.Load(e, m.len_)})
	}
	e.Intrinsics["(*container/list.List).Front"] = func(e *Engine, p *Path, ic *ICall) {
		m := model(p, ic.Args[0][0])
		n := p.Load(e, m.len_)
		empty := B.Eq(n, B.BV(64, 0))
		ic.Return(e, p, Value{B.Ite(empty, B.BV(64, 0), p.Load(e, m.pos[0]))})
	}
	e.Intrinsics["(*container/list.List).PushBack"] = func(e *Engine, p *Path, ic *ICall) {
		m := model(p, ic.Args[0][0])
		el := e.allocPool(p, "listelem|"+e.siteKey(p, ic.Site, ""), e.Layout(elemT), ObjPlain, "list.Element", m.cap_, func(o *Obj) { o.Typ = elemT })
		e.StoreVal(p, B.Add(el, B.BV(64, uint64(valOff()))), ic.Args[1])
		n := p.Load(e, m.len_)
		e.RaiseFlag(p, "unwind", B.Not(B.Ult(n, B.BV(64, uint64(m.cap_)))))
		for i := 0; i < m.cap_; i++ {
			at := B.Eq(n, B.BV(64, uint64(i)))
			p.Store(e, m.pos[i], B.Ite(at, el, p.Load(e, m.pos[i])))
		}
		p.Store(e, m.len_, B.Add(n, B.BV(64, 1)))
		ic.Return(e, p, Value{el})
	}
	e.Intrinsics["(*container/list.List).Remove"] = func(e *Engine, p *Path, ic *ICall) {
		m := model(p, ic.Args[0][0])
		el := ic.Args[1][0]
		_, nilc := e.ptrLeaves(el)
		e.forkFault(p, nilc, "nil dereference")
		n := p.Load(e, m.len_)
		// found[i]: element is at position i
		before := B.False // element found at an index < i+1
		for i := 0; i < m.cap_; i++ {
			here := B.And(B.Ult(B.BV(64, uint64(i)), n), B.Eq(p.Load(e, m.pos[i]), el))
			before = B.Or(before, here)
			var next *Term
			if i+1 < m.cap_ {
				next = p.Load(e, m.pos[i+1])
			} else {
				next = B.BV(64, 0)
			}
			p.Store(e, m.pos[i], B.Ite(before, next, p.Load(e, m.pos[i])))
		}
		p.Store(e, m.len_, B.Ite(before, B.Sub(n, B.BV(64, 1)), n))
		v, _ := e.LoadVal(p, B.Add(el, B.BV(64, uint64(valOff()))), []int{16, 64})
		ic.Return(e, p, v)
	}
}
