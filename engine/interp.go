package engine

// Symbolic interpreter for go/ssa: values, memory, sequential instructions,
// calls, defer/panic/recover/Goexit. Concurrency lives in conc.go.

import (
	"fmt"
	"go/constant"
	"go/token"
	"go/types"
	"os"
	"sort"
	"strings"

	"golang.org/x/tools/go/ssa"
	"golang.org/x/tools/go/types/typeutil"
)

const AddrBase = 1 << 20

type Value []*Term

type EngineError struct{ Msg string }

func (e EngineError) Error() string { return e.Msg }

func unsupported(format string, a ...interface{}) {
	panic(EngineError{fmt.Sprintf(format, a...)})
}

type ObjKind int

const (
	ObjPlain ObjKind = iota
	ObjChan
	ObjClosure
	ObjCtx
	ObjMap
)

type Obj struct {
	Base, Size int
	Kind       ObjKind
	Typ        types.Type
	Label      string
	// chan
	Cap     int
	Elem    types.Type
	ElemLay []int
	KeyLay  []int // maps: key layout (ElemLay = value layout)
	// closure
	Fn   *ssa.Function
	Stub *Stub
	// Tracked: program memory subject to the happens-before monitor
	Tracked bool
}

// Stub is an engine-implemented function value (e.g. the body of job k).
type Stub struct {
	Name string
	K    int
	Data interface{}
}

type fnInfo struct {
	idx     map[ssa.Value]int
	n       int
	live    *liveInfo
	intRegs []bool
	loopCtr []int
}

type Deferred struct {
	Call  *ssa.CallCommon
	Fn    Value // evaluated callee value (nil for static/builtin)
	Args  []Value
	Site  ssa.Instruction
	Label string
}

type Frame struct {
	Fn      *ssa.Function
	Block   *ssa.BasicBlock
	PC      int
	Regs    []Value
	Defers  []Deferred
	Mode    int             // 0 normal, 1 running defers (normal return path), 2 unwinding
	Call    ssa.Instruction // call instruction in the caller awaiting our result (nil for deferred/go/root)
	ByUnwnd bool            // invoked by the unwinder as a deferred call
	IsDefer bool            // invoked as a deferred call (result discarded)
	Phase   int             // sub-state of the current instruction (stub calls)
	StubK   *Stub           // stub whose end the frame is waiting for (Phase 1)
	joined  bool            // frame just entered a join block
	Depth   int
}

func (f *Frame) clone() *Frame {
	g := *f
	g.Regs = append([]Value(nil), f.Regs...)
	g.Defers = append([]Deferred(nil), f.Defers...)
	return &g
}

type PanicState struct {
	Goexit    bool
	Val       Value
	Recovered bool
}

// Ctx is the execution context of one process (goroutine).
type Ctx struct {
	Pid    int
	Frames []*Frame
	Pan    *PanicState
}

func (c *Ctx) clone() *Ctx {
	d := &Ctx{Pid: c.Pid}
	for _, f := range c.Frames {
		d.Frames = append(d.Frames, f.clone())
	}
	if c.Pan != nil {
		p := *c.Pan
		d.Pan = &p
	}
	return d
}

func (c *Ctx) top() *Frame { return c.Frames[len(c.Frames)-1] }

// ParkRec records that process Pid ended this path parked (or exited).
type ParkRec struct {
	Pid    int
	Key    string
	Ctx    *Ctx // nil when exited
	Exited bool
	Crash  bool // process died with an unrecovered panic
}

type Path struct {
	Guard     *Term
	Heap      []*Term
	Cur       *Ctx
	Suspended []*Ctx
	Parks     []ParkRec
	Resuming  bool // the current instruction is a sync op being resumed (do not park again)
	Fuel      int
	Origin    string // config key this continuation started from
	AtJoin    bool   // just entered a join block: candidate for merging
	Cut       bool   // exploration of this path was cut at a bound (unwind flag raised)
}

func (p *Path) fork(guard *Term) *Path {
	q := &Path{Guard: guard, Heap: append([]*Term(nil), p.Heap...), Cur: p.Cur.clone(), Resuming: p.Resuming, Fuel: p.Fuel, Origin: p.Origin}
	for _, s := range p.Suspended {
		q.Suspended = append(q.Suspended, s.clone())
	}
	q.Parks = append([]ParkRec(nil), p.Parks...)
	return q
}

type Pool struct {
	Slots []int
	Cnt   int // address of the counter cell
	Bound int
	Lay   []int
}

type Engine struct {
	P *Program
	B *TB

	cellW   []int
	cellInt []bool // cell holds a Go integer (subject to range clamping)
	cellObj []*Obj
	objs    []*Obj

	fninfo   map[*ssa.Function]*fnInfo
	globals  map[*ssa.Global]int
	funcObj  map[*ssa.Function]int
	stubObj  map[string]int
	typeIDs  typeutil.Map
	typeByID map[uint64]types.Type
	nextType uint64
	strID    map[string]uint64
	strByID  map[uint64]string
	layouts  typeutil.Map
	pools    map[string]*Pool
	init     []*Term // initial heap (globals etc.)

	work           []*Path
	done           []*Path
	waiting        map[string][]*Path
	Merges         int
	NoMerge        bool
	NoLiveness     bool
	DebugPaths     bool
	mapIters       int
	MissingBody    func(fn *ssa.Function) Intrinsic
	SpawnHook      func(p *Path, callee string)
	Race           *RaceMon
	Plumb          *Plumb
	RaceSites      map[string]bool
	MaxStack       int
	StackCuts      int
	pathsRun       int
	forkCount      map[ssa.Instruction]int
	MergeAfterCall bool
	Profile        map[string]int
	ProfileN       map[string]int

	Intrinsics    map[string]Intrinsic
	InvokeHook    func(e *Engine, p *Path, tag uint64, method string, recv Value, ic *ICall) bool
	PoolBound     func(fn *ssa.Function, instr ssa.Instruction) int
	Concurrent    bool // sync operations are yield points driven by the stepper
	sys           *Sys
	StubHandlers  map[string]*StubHandler
	SyncInvoke    func(s *Sys, pr *Proc, c *Config, in *ssa.Call) []variant
	InitPkgs      map[string]bool
	ExploreFaults bool
	DebugTypes    bool
	AppendBound   func(fn *ssa.Function) int
	IntBound      int // Go integers in the modelled state stay within [-2, IntBound] (unwinding obligation)
	FaultKinds    map[string]bool
	MaxFuel       int

	// sticky obligation flags (addresses of Bool cells)
	Flags map[string]int

	Encoded map[string]bool // functions whose SSA was executed
	Notes   []string
}

// ICall describes a call handled by the engine instead of SSA.
type ICall struct {
	Site    ssa.Instruction
	Call    *ssa.Call // nil for deferred / go calls
	Args    []Value
	IsDefer bool
	Fn      *ssa.Function
}

// Return completes the intrinsic call normally on path p.
func (ic *ICall) Return(e *Engine, p *Path, v Value) {
	if ic.Call != nil {
		e.finish(p.Cur.top(), ic.Call, v)
	}
}

type Intrinsic func(e *Engine, p *Path, ic *ICall)

// reserved interface tags for engine-level dynamic types
const (
	TagCtx          = 0xFF01
	TagOpaqErr      = 0xFF02 // opaque error object; data = identity
	TagMultiErr     = 0xFF03
	TagRuntime      = 0xFF04 // runtime error panic value
	TagOpaque       = 0xFF05 // any other opaque boxed value
	TagUncomparable = 0xFF06 // opaque value whose dynamic type is not comparable (e.g. a slice)
)

func NewEngine(P *Program) *Engine {
	e := &Engine{P: P, B: NewTB(),
		fninfo: map[*ssa.Function]*fnInfo{}, globals: map[*ssa.Global]int{}, funcObj: map[*ssa.Function]int{},
		stubObj: map[string]int{}, typeByID: map[uint64]types.Type{}, nextType: 1,
		strID: map[string]uint64{"": 0}, strByID: map[uint64]string{0: ""},
		pools: map[string]*Pool{}, Intrinsics: map[string]Intrinsic{}, Flags: map[string]int{},
		RaceSites: map[string]bool{},
		Encoded:   map[string]bool{}, MaxFuel: 20000, StubHandlers: map[string]*StubHandler{}, InitPkgs: map[string]bool{}, FaultKinds: map[string]bool{},
	}
	return e
}

// ---------- layout ----------

func (e *Engine) Layout(T types.Type) []int {
	if v := e.layouts.At(T); v != nil {
		return v.([]int)
	}
	var lay []int
	switch t := T.Underlying().(type) {
	case *types.Basic:
		switch t.Kind() {
		case types.Bool, types.UntypedBool:
			lay = []int{0}
		case types.Int8, types.Uint8:
			lay = []int{8}
		case types.Int16, types.Uint16:
			lay = []int{16}
		case types.Int32, types.Uint32, types.Float32, types.UntypedRune:
			lay = []int{32}
		case types.Invalid:
			lay = []int{}
		default:
			lay = []int{64}
		}
	case *types.Pointer, *types.Chan, *types.Map, *types.Signature:
		lay = []int{64}
	case *types.Slice:
		lay = []int{64, 64, 64}
	case *types.Interface:
		lay = []int{16, 64}
	case *types.Struct:
		lay = []int{}
		for i := 0; i < t.NumFields(); i++ {
			lay = append(lay, e.Layout(t.Field(i).Type())...)
		}
	case *types.Array:
		el := e.Layout(t.Elem())
		lay = []int{}
		for i := int64(0); i < t.Len(); i++ {
			lay = append(lay, el...)
		}
	case *types.Tuple:
		lay = []int{}
		for i := 0; i < t.Len(); i++ {
			lay = append(lay, e.Layout(t.At(i).Type())...)
		}
	default:
		unsupported("layout of %s", T)
	}
	e.layouts.Set(T, lay)
	return lay
}

func (e *Engine) fieldOffset(st *types.Struct, i int) int {
	off := 0
	for k := 0; k < i; k++ {
		off += len(e.Layout(st.Field(k).Type()))
	}
	return off
}

func (e *Engine) Zero(lay []int) Value {
	v := make(Value, len(lay))
	for i, w := range lay {
		v[i] = e.B.BV(w, 0)
	}
	return v
}

func (e *Engine) ZeroOf(T types.Type) Value { return e.Zero(e.Layout(T)) }

func (e *Engine) TypeID(T types.Type) uint64 {
	if v := e.typeIDs.At(T); v != nil {
		return v.(uint64)
	}
	id := e.nextType
	e.nextType++
	e.typeIDs.Set(T, id)
	e.typeByID[id] = T
	return id
}

func (e *Engine) Str(s string) uint64 {
	if id, ok := e.strID[s]; ok {
		return id
	}
	id := uint64(len(e.strID))
	e.strID[s] = id
	e.strByID[id] = s
	return id
}

// ---------- memory ----------

func (e *Engine) newObj(lay []int, kind ObjKind, label string) *Obj {
	o := &Obj{Base: AddrBase + len(e.cellW), Size: len(lay), Kind: kind, Label: label}
	if len(lay) == 0 {
		// every object has a distinct address
		lay = []int{0}
		o.Size = 0
	}
	for _, w := range lay {
		e.cellW = append(e.cellW, w)
		e.cellInt = append(e.cellInt, false)
		e.cellObj = append(e.cellObj, o)
	}
	e.objs = append(e.objs, o)
	return o
}

// LayoutKinds marks which cells of a type's layout are Go integers.
func (e *Engine) LayoutKinds(T types.Type) []bool {
	switch t := T.Underlying().(type) {
	case *types.Basic:
		n := len(e.Layout(T))
		k := make([]bool, n)
		if t.Kind() == types.Int && n == 1 {
			k[0] = true
		}
		return k
	case *types.Struct:
		var k []bool
		for i := 0; i < t.NumFields(); i++ {
			k = append(k, e.LayoutKinds(t.Field(i).Type())...)
		}
		return k
	case *types.Array:
		var k []bool
		el := e.LayoutKinds(t.Elem())
		for i := int64(0); i < t.Len(); i++ {
			k = append(k, el...)
		}
		return k
	case *types.Slice:
		return []bool{false, true, true}
	}
	return make([]bool, len(e.Layout(T)))
}

// SetObjType records the element type of an object and marks integer cells.
func (e *Engine) SetObjType(o *Obj, T types.Type) {
	o.Typ = T
	o.Tracked = true
	k := e.LayoutKinds(T)
	if len(k) == 0 {
		return
	}
	for i := 0; i < o.Size; i++ {
		e.cellInt[o.Base-AddrBase+i] = k[i%len(k)]
	}
}

// clampInt bounds an integer term to the configured range; values outside
// raise the unwinding obligation through `raise`.
func (e *Engine) clampInt(t *Term, raise func(c *Term)) *Term {
	if e.IntBound <= 0 || t.W == 0 {
		return t
	}
	r, out := e.B.ClampSigned(t, -2, int64(e.IntBound))
	if !out.IsFalse() {
		raise(out)
	}
	return r
}

func (e *Engine) ObjAt(addr uint64) *Obj {
	i := int(addr) - AddrBase
	if i < 0 || i >= len(e.cellObj) {
		return nil
	}
	return e.cellObj[i]
}

func (e *Engine) widthAt(addr int) int { return e.cellW[addr-AddrBase] }

func (p *Path) Load(e *Engine, addr int) *Term {
	i := addr - AddrBase
	if i < len(p.Heap) && p.Heap[i] != nil {
		return p.Heap[i]
	}
	return e.B.BV(e.cellW[i], 0)
}

func (p *Path) Store(e *Engine, addr int, v *Term) {
	i := addr - AddrBase
	if e.DebugTypes && v.W == 64 {
		if o := e.cellObj[i]; o != nil && strings.Contains(o.Label, "Element") && addr-o.Base < 2 {
			if lv, ok := e.B.Leaves(v); ok {
				for _, a := range lv {
					if oo := e.ObjAt(a); oo != nil && strings.Contains(oo.Label, "ScheduledJob") {
						panic(fmt.Sprintf("DEBUG store of job ptr into %s+%d", o.Label, addr-o.Base))
					}
				}
			}
		}
	}
	if w := e.cellW[i]; w != v.W {
		panic(EngineError{fmt.Sprintf("store sort mismatch at %d: cell %d value %d", addr, w, v.W)})
	}
	for len(p.Heap) <= i {
		p.Heap = append(p.Heap, nil)
	}
	p.Heap[i] = v
}

// ptrLeaves splits a pointer term into its valid object addresses and the
// condition under which it is nil (or nil-derived).
func (e *Engine) ptrLeaves(ptr *Term) (addrs []int, nilCond *Term) {
	lv, ok := e.B.Leaves(ptr)
	if !ok {
		unsupported("pointer term is not an ite-tree over constants: op=%d", ptr.Op)
	}
	nilCond = e.B.False
	for _, a := range lv {
		if a < AddrBase {
			nilCond = e.B.Or(nilCond, e.B.Eq(ptr, e.B.BV(64, a)))
		} else {
			addrs = append(addrs, int(a))
		}
	}
	sort.Ints(addrs)
	return
}

func (e *Engine) layFits(addr int, lay []int) bool {
	i := addr - AddrBase
	if i < 0 || i+len(lay) > len(e.cellW) {
		return false
	}
	for k, w := range lay {
		if e.cellW[i+k] != w {
			return false
		}
	}
	return true
}

// LoadVal loads a value of layout lay through ptr; nilCond is the condition
// under which the access faults.
func (e *Engine) LoadVal(p *Path, ptr *Term, lay []int) (Value, *Term) {
	addrs, nilCond := e.ptrLeaves(ptr)
	var val Value
	first := true
	for _, a := range addrs {
		if !e.layFits(a, lay) {
			continue
		}
		cur := make(Value, len(lay))
		for i := range lay {
			cur[i] = p.Load(e, a+i)
		}
		if e.Race != nil {
			c := e.B.Eq(ptr, e.B.BV(64, uint64(a)))
			for i := range lay {
				e.Race.Read(p, a+i, c)
			}
		}
		if e.Plumb != nil {
			c := e.B.Eq(ptr, e.B.BV(64, uint64(a)))
			for i := range lay {
				e.Plumb.Read(p, a+i, c)
			}
		}
		if first {
			val = cur
			first = false
			continue
		}
		c := e.B.Eq(ptr, e.B.BV(64, uint64(a)))
		for i := range lay {
			val[i] = e.B.Ite(c, cur[i], val[i])
		}
	}
	if first {
		val = e.Zero(lay)
	}
	return val, nilCond
}

func (e *Engine) StoreVal(p *Path, ptr *Term, val Value) *Term {
	addrs, nilCond := e.ptrLeaves(ptr)
	lay := make([]int, len(val))
	for i, t := range val {
		lay[i] = t.W
	}
	var fit []int
	for _, a := range addrs {
		if e.layFits(a, lay) {
			fit = append(fit, a)
		}
	}
	if e.Race != nil {
		for _, a := range fit {
			c := e.B.Eq(ptr, e.B.BV(64, uint64(a)))
			for i := range val {
				e.Race.Write(p, a+i, c)
			}
		}
	}
	if e.Plumb != nil {
		for _, a := range fit {
			c := e.B.Eq(ptr, e.B.BV(64, uint64(a)))
			for i := range val {
				e.Plumb.Write(p, a+i, c)
			}
		}
	}
	for _, a := range fit {
		if len(fit) == 1 && nilCond.IsFalse() {
			for i := range val {
				p.Store(e, a+i, val[i])
			}
			break
		}
		c := e.B.Eq(ptr, e.B.BV(64, uint64(a)))
		for i := range val {
			p.Store(e, a+i, e.B.Ite(c, val[i], p.Load(e, a+i)))
		}
	}
	return nilCond
}

// allocPool allocates an object for an allocation site. Sites that may fire
// repeatedly in merged executions draw from a bounded pool with a symbolic
// counter; exhaustion raises the "unwind" obligation flag.
func (e *Engine) allocPool(p *Path, key string, lay []int, kind ObjKind, label string, bound int, init func(o *Obj)) *Term {
	pl := e.pools[key]
	if pl == nil {
		cnt := e.newObj([]int{8}, ObjPlain, "poolcnt:"+key)
		pl = &Pool{Cnt: cnt.Base, Bound: bound, Lay: lay}
		e.pools[key] = pl
	}
	slot := func(i int) int {
		for len(pl.Slots) <= i {
			o := e.newObj(lay, kind, fmt.Sprintf("%s#%d", label, len(pl.Slots)))
			if init != nil {
				init(o)
			}
			pl.Slots = append(pl.Slots, o.Base)
		}
		return pl.Slots[i]
	}
	cnt := p.Load(e, pl.Cnt)
	if !cnt.IsConst() {
		lim := bound
		if lim < 1 {
			lim = 1
		}
		cnt, _ = e.B.ClampSigned(cnt, 0, int64(lim))
	}
	p.Store(e, pl.Cnt, e.B.Add(cnt, e.B.BV(8, 1)))
	zero := func(base int, cond *Term) {
		for i, w := range lay {
			z := e.B.BV(w, 0)
			if cond == nil {
				p.Store(e, base+i, z)
			} else {
				p.Store(e, base+i, e.B.Ite(cond, z, p.Load(e, base+i)))
			}
		}
	}
	if cnt.IsConst() {
		a := slot(int(cnt.Val))
		zero(a, nil)
		return e.B.BV(64, uint64(a))
	}
	if bound <= 1 {
		// shared single slot: sound only if used at most once per execution
		if e.DebugPaths {
			fmt.Fprintf(os.Stderr, "POOL symbolic counter at %s leaves=%v\n", key, e.B.leaves(cnt))
		}
		e.RaiseFlag(p, "unwind", e.B.Not(e.B.Eq(cnt, e.B.BV(8, 0))))
		a := slot(0)
		zero(a, nil)
		return e.B.BV(64, uint64(a))
	}
	e.RaiseFlag(p, "unwind", e.B.Not(e.B.Ult(cnt, e.B.BV(8, uint64(bound)))))
	res := e.B.BV(64, uint64(slot(bound-1)))
	for i := bound - 2; i >= 0; i-- {
		res = e.B.Ite(e.B.Eq(cnt, e.B.BV(8, uint64(i))), e.B.BV(64, uint64(slot(i))), res)
	}
	for i := 0; i < bound; i++ {
		zero(slot(i), e.B.Eq(cnt, e.B.BV(8, uint64(i))))
	}
	return res
}

func instrPos(instr ssa.Instruction) string {
	if instr == nil {
		return "-"
	}
	b := instr.Block()
	for i, in := range b.Instrs {
		if in == instr {
			return fmt.Sprintf("b%d.%d", b.Index, i)
		}
	}
	return "?"
}

// siteKey identifies an allocation site together with its calling context
// (the chain of call instructions), per process.
func (e *Engine) siteKey(p *Path, instr ssa.Instruction, extra string) string {
	var sb strings.Builder
	fmt.Fprintf(&sb, "p%d|", p.Cur.Pid)
	for _, f := range p.Cur.Frames {
		fmt.Fprintf(&sb, "%s<%s|", f.Fn.String(), instrPos(f.Call))
	}
	sb.WriteString(instrPos(instr))
	sb.WriteString("|")
	sb.WriteString(extra)
	return sb.String()
}

// Flag returns the address of a sticky Bool obligation cell.
func (e *Engine) Flag(name string) int {
	if a, ok := e.Flags[name]; ok {
		return a
	}
	o := e.newObj([]int{0}, ObjPlain, "flag:"+name)
	e.Flags[name] = o.Base
	return o.Base
}

func (e *Engine) RaiseFlag(p *Path, name string, cond *Term) {
	a := e.Flag(name)
	p.Store(e, a, e.B.Or(p.Load(e, a), cond))
}

// ---------- functions / closures ----------

func (e *Engine) info(fn *ssa.Function) *fnInfo {
	if fi := e.fninfo[fn]; fi != nil {
		return fi
	}
	fi := &fnInfo{idx: map[ssa.Value]int{}}
	add := func(v ssa.Value) {
		fi.idx[v] = fi.n
		fi.n++
	}
	for _, pa := range fn.Params {
		add(pa)
	}
	for _, fv := range fn.FreeVars {
		add(fv)
	}
	for _, b := range fn.Blocks {
		for _, in := range b.Instrs {
			if v, ok := in.(ssa.Value); ok {
				add(v)
			}
		}
	}
	e.fninfo[fn] = fi
	return fi
}

func (e *Engine) closureLayout(fn *ssa.Function) []int {
	lay := []int{64}
	for _, fv := range fn.FreeVars {
		lay = append(lay, e.Layout(fv.Type())...)
	}
	return lay
}

func (e *Engine) StaticFunc(fn *ssa.Function) *Term {
	if a, ok := e.funcObj[fn]; ok {
		return e.B.BV(64, uint64(a))
	}
	o := e.newObj([]int{64}, ObjClosure, "func:"+fn.String())
	o.Fn = fn
	e.funcObj[fn] = o.Base
	return e.B.BV(64, uint64(o.Base))
}

// StubFunc returns a function value implemented by the engine.
func (e *Engine) StubFunc(s *Stub) *Term {
	key := fmt.Sprintf("%s#%d", s.Name, s.K)
	if a, ok := e.stubObj[key]; ok {
		return e.B.BV(64, uint64(a))
	}
	o := e.newObj([]int{64}, ObjClosure, "stub:"+key)
	o.Stub = s
	e.stubObj[key] = o.Base
	return e.B.BV(64, uint64(o.Base))
}

func (e *Engine) globalAddr(g *ssa.Global) int {
	if a, ok := e.globals[g]; ok {
		return a
	}
	T := g.Type().(*types.Pointer).Elem()
	o := e.newObj(e.Layout(T), ObjPlain, "global:"+g.String())
	o.Typ = T
	e.globals[g] = o.Base
	return o.Base
}

// ---------- operand evaluation ----------

func (e *Engine) constVal(c *ssa.Const) Value {
	T := c.Type()
	lay := e.Layout(T)
	if c.Value == nil {
		return e.Zero(lay)
	}
	switch t := T.Underlying().(type) {
	case *types.Basic:
		switch {
		case t.Info()&types.IsBoolean != 0:
			return Value{e.B.Bool(constant.BoolVal(c.Value))}
		case t.Info()&types.IsString != 0:
			return Value{e.B.BV(64, e.Str(constant.StringVal(c.Value)))}
		case t.Info()&types.IsInteger != 0:
			if t.Info()&types.IsUnsigned != 0 {
				return Value{e.B.BV(lay[0], c.Uint64())}
			}
			return Value{e.B.BV(lay[0], uint64(c.Int64()))}
		case t.Info()&types.IsFloat != 0:
			f := c.Float64()
			return Value{e.B.BV(lay[0], uint64(int64(f*1e6)))} // opaque
		}
	case *types.Interface:
		// untyped nil handled above; typed constants in interfaces do not occur
	}
	unsupported("constant %s of type %s", c, T)
	return nil
}

func (e *Engine) Eval(fr *Frame, v ssa.Value) Value {
	switch x := v.(type) {
	case *ssa.Const:
		return e.constVal(x)
	case *ssa.Function:
		return Value{e.StaticFunc(x)}
	case *ssa.Global:
		return Value{e.B.BV(64, uint64(e.globalAddr(x)))}
	case *ssa.Builtin:
		unsupported("builtin %s used as value", x.Name())
	}
	i, ok := e.info(fr.Fn).idx[v]
	if !ok {
		unsupported("value %s not in function %s", v.Name(), fr.Fn)
	}
	r := fr.Regs[i]
	if r == nil {
		unsupported("register %s of %s read before definition", v.Name(), fr.Fn)
	}
	return r
}

func (e *Engine) setReg(fr *Frame, v ssa.Value, val Value) {
	fr.Regs[e.info(fr.Fn).idx[v]] = val
}

func isSigned(T types.Type) bool {
	b, ok := T.Underlying().(*types.Basic)
	return ok && b.Info()&types.IsInteger != 0 && b.Info()&types.IsUnsigned == 0
}

func (e *Engine) valEq(x, y Value) *Term {
	r := e.B.True
	for i := range x {
		r = e.B.And(r, e.B.Eq(x[i], y[i]))
	}
	return r
}

func (e *Engine) binop(op token.Token, T types.Type, x, y Value) Value {
	B := e.B
	switch op {
	case token.EQL:
		return Value{e.valEq(x, y)}
	case token.NEQ:
		return Value{B.Not(e.valEq(x, y))}
	}
	if len(x) != 1 {
		unsupported("binop %s on composite", op)
	}
	a, c := x[0], y[0]
	signed := isSigned(T)
	if bt, ok := T.Underlying().(*types.Basic); ok && bt.Info()&types.IsString != 0 {
		unsupported("string binop %s", op)
	}
	switch op {
	case token.ADD:
		return Value{B.Add(a, c)}
	case token.SUB:
		return Value{B.Sub(a, c)}
	case token.MUL:
		return Value{B.Mul(a, c)}
	case token.QUO:
		if signed {
			return Value{B.Sdiv(a, c)}
		}
		return Value{B.Udiv(a, c)}
	case token.REM:
		if signed {
			return Value{B.Srem(a, c)}
		}
		return Value{B.Urem(a, c)}
	case token.AND:
		if a.W == 0 {
			return Value{B.And(a, c)}
		}
		return Value{B.BvAnd(a, c)}
	case token.OR:
		if a.W == 0 {
			return Value{B.Or(a, c)}
		}
		return Value{B.BvOr(a, c)}
	case token.XOR:
		return Value{B.BvXor(a, c)}
	case token.AND_NOT:
		return Value{B.BvAnd(a, B.BvNot(c))}
	case token.SHL, token.SHR:
		if c.W != a.W {
			if c.W < a.W {
				c = B.Zext(c, a.W)
			} else {
				// large shift amounts saturate
				big := B.Not(B.Ult(c, B.BV(c.W, uint64(a.W))))
				c = B.Ite(big, B.BV(a.W, uint64(a.W)), B.Extract(a.W-1, 0, c))
			}
		}
		if op == token.SHL {
			return Value{B.Shl(a, c)}
		}
		if signed {
			return Value{B.Ashr(a, c)}
		}
		return Value{B.Lshr(a, c)}
	case token.LSS:
		if signed {
			return Value{B.Slt(a, c)}
		}
		return Value{B.Ult(a, c)}
	case token.LEQ:
		if signed {
			return Value{B.Sle(a, c)}
		}
		return Value{B.Ule(a, c)}
	case token.GTR:
		if signed {
			return Value{B.Slt(c, a)}
		}
		return Value{B.Ult(c, a)}
	case token.GEQ:
		if signed {
			return Value{B.Sle(c, a)}
		}
		return Value{B.Ule(c, a)}
	}
	unsupported("binop %s", op)
	return nil
}

func (e *Engine) convert(from, to types.Type, v Value) Value {
	fl, tl := e.Layout(from), e.Layout(to)
	if len(fl) == 1 && len(tl) == 1 {
		fb, fok := from.Underlying().(*types.Basic)
		tb, tok := to.Underlying().(*types.Basic)
		if fok && tok && fb.Info()&types.IsInteger != 0 && tb.Info()&types.IsInteger != 0 {
			if tl[0] <= fl[0] {
				return Value{e.B.Extract(tl[0]-1, 0, v[0])}
			}
			if isSigned(from) {
				return Value{e.B.Sext(v[0], tl[0])}
			}
			return Value{e.B.Zext(v[0], tl[0])}
		}
		if fl[0] == tl[0] {
			_, fs := from.Underlying().(*types.Basic)
			_, ts := to.Underlying().(*types.Basic)
			if !fs || !ts || (fb.Info()&types.IsString != 0) == (tb.Info()&types.IsString != 0) {
				return v
			}
		}
	}
	unsupported("convert %s -> %s", from, to)
	return nil
}

// ---------- interfaces ----------

func (e *Engine) MakeIface(p *Path, T types.Type, v Value, site string) Value {
	B := e.B
	if _, isIface := T.Underlying().(*types.Interface); isIface {
		return v
	}
	tag := B.BV(16, e.TypeID(T))
	lay := e.Layout(T)
	if len(lay) == 1 {
		var data *Term
		switch {
		case lay[0] == 0:
			data = B.BoolToBV(v[0], 64)
		default:
			data = B.Zext(v[0], 64)
		}
		return Value{tag, data}
	}
	if len(lay) == 0 {
		return Value{tag, B.BV(64, 0)}
	}
	// box
	ptr := e.allocPool(p, "box|"+site, lay, ObjPlain, "box:"+T.String(), 1, func(o *Obj) { e.SetObjType(o, T) })
	e.StoreVal(p, ptr, v)
	return Value{tag, ptr}
}

func (e *Engine) unbox(p *Path, T types.Type, data *Term) Value {
	lay := e.Layout(T)
	if len(lay) == 1 {
		if lay[0] == 0 {
			return Value{e.B.Not(e.B.Eq(data, e.B.BV(64, 0)))}
		}
		return Value{e.B.Extract(lay[0]-1, 0, data)}
	}
	if len(lay) == 0 {
		return Value{}
	}
	v, _ := e.LoadVal(p, data, lay)
	return v
}

// tagLeaves lists possible dynamic type tags of an interface value.
func (e *Engine) tagLeaves(tag *Term) []uint64 {
	lv, ok := e.B.Leaves(tag)
	if !ok {
		unsupported("interface tag is not an ite-tree over constants")
	}
	return lv
}

func (e *Engine) implements(id uint64, iface *types.Interface) bool {
	T := e.typeByID[id]
	if T == nil {
		return false
	}
	return types.Implements(T, iface)
}

// ---------- running ----------

func (e *Engine) NewFrame(fn *ssa.Function, args []Value, bindings []Value) *Frame {
	if fn.Blocks == nil {
		unsupported("call to function without body: %s", fn)
	}
	e.Encoded[fn.String()] = true
	fi := e.info(fn)
	fr := &Frame{Fn: fn, Block: fn.Blocks[0], Regs: make([]Value, fi.n)}
	if len(args) != len(fn.Params) {
		unsupported("arity mismatch calling %s: %d vs %d", fn, len(args), len(fn.Params))
	}
	for i, pa := range fn.Params {
		fr.Regs[fi.idx[pa]] = args[i]
	}
	for i, fv := range fn.FreeVars {
		fr.Regs[fi.idx[fv]] = bindings[i]
	}
	return fr
}

// Schedule pushes a path on the work list.
func (e *Engine) Schedule(p *Path) {
	if p.Guard.IsFalse() || p.Cur == nil {
		return
	}
	e.work = append(e.work, p)
}

// RunAll runs all scheduled paths to completion and returns finished paths.
// Paths arriving at a join block wait there; when nothing else can run the
// earliest waiting group is merged into one path (state merging), which keeps
// the number of paths linear in the unrolled control-flow graph.
func (e *Engine) RunAll() []*Path {
	e.done = nil
	for {
		for len(e.work) > 0 {
			p := e.work[len(e.work)-1]
			e.work = e.work[:len(e.work)-1]
			e.runPath(p)
			e.pathsRun++
			if e.DebugPaths && e.pathsRun%2000 == 0 {
				nw := 0
				for _, g := range e.waiting {
					nw += len(g)
				}
				fmt.Fprintf(os.Stderr, "    paths run=%d work=%d waiting=%d groups=%d done=%d terms=%d merges=%d\n", e.pathsRun, len(e.work), nw, len(e.waiting), len(e.done), e.B.NumTerms(), e.Merges)
				if os.Getenv("VERIF_DUMPKEYS") != "" && len(e.waiting) > 3 && e.pathsRun > 3000 {
					n := 0
					for k, g := range e.waiting {
						fmt.Fprintf(os.Stderr, "GROUP size=%d\n", len(g))
						for pi, pp := range g {
							if pi > 4 {
								break
							}
							fr := pp.Cur.top()
							fi := e.info(fr.Fn)
							desc := ""
							for v, idx := range fi.idx {
								if r := fr.Regs[idx]; r != nil && len(r) == 1 && r[0].IsConst() && r[0].W == 64 && r[0].Val < 100 {
									desc += fmt.Sprintf(" %s=%d", v.Name(), r[0].Val)
								}
							}
							fmt.Fprintf(os.Stderr, "   path fuel=%d consts:%s\n", pp.Fuel, desc)
						}
						fmt.Fprintf(os.Stderr, "KEY %s\n\n", k)
						n++
						if n > 6 {
							break
						}
					}
					os.Exit(3)
				}
			}
		}
		if len(e.waiting) == 0 {
			break
		}
		// pick the group that is deepest in the call stack, then earliest block
		var best string
		var bestP *Path
		for k, g := range e.waiting {
			p := g[0]
			if bestP == nil || joinBefore(p, bestP) || (!joinBefore(bestP, p) && k < best) {
				best, bestP = k, p
			}
		}
		g := e.waiting[best]
		delete(e.waiting, best)
		e.work = append(e.work, e.mergePaths(g))
	}
	d := e.done
	e.done = nil
	return d
}

func joinBefore(a, b *Path) bool {
	da, db := len(a.Suspended), len(b.Suspended)
	if da != db {
		return da > db
	}
	fa, fb := a.Cur.Frames, b.Cur.Frames
	if len(fa) != len(fb) {
		return len(fa) > len(fb)
	}
	ta, tb := fa[len(fa)-1], fb[len(fb)-1]
	if ta.Fn != tb.Fn {
		return false
	}
	return ta.Block.Index < tb.Block.Index
}

func (e *Engine) joinKey(p *Path) string {
	var sb strings.Builder
	sb.WriteString(e.ConfigKey(p.Cur))
	fmt.Fprintf(&sb, "|pid%d|res%v|", p.Cur.Pid, p.Resuming)
	// Paths are merged only when their concrete integer registers (loop
	// counters) agree: loops are unrolled per iteration and a merged counter
	// never hides the loop bound from constant folding.
	for fi, f := range p.Cur.Frames {
		lc := e.loopCounters(f.Fn)
		for _, i := range lc {
			if r := f.Regs[i]; r != nil && len(r) == 1 && r[0].IsConst() {
				fmt.Fprintf(&sb, "%d.%d=%d,", fi, i, r[0].Val)
			}
		}
	}
	for _, s := range p.Suspended {
		sb.WriteString(e.ConfigKey(s))
		sb.WriteString("#")
	}
	for _, r := range p.Parks {
		fmt.Fprintf(&sb, "park%d:%s:%v;", r.Pid, r.Key, r.Exited)
	}
	return sb.String()
}

// loopCounters lists the registers that control loop exits: phi nodes of a
// block whose value (possibly plus a constant) is compared in that block and
// the comparison decides the block's terminating If. Accumulators such as
// "seen++" are not loop counters and may be merged.
func (e *Engine) loopCounters(fn *ssa.Function) []int {
	fi := e.info(fn)
	if fi.loopCtr != nil {
		return fi.loopCtr
	}
	out := []int{}
	for _, b := range fn.Blocks {
		if len(b.Instrs) == 0 {
			continue
		}
		ifi, ok := b.Instrs[len(b.Instrs)-1].(*ssa.If)
		if !ok {
			continue
		}
		cmp, ok := ifi.Cond.(*ssa.BinOp)
		if !ok || cmp.Block() != b {
			continue
		}
		for _, opnd := range []ssa.Value{cmp.X, cmp.Y} {
			v := opnd
			if bo, ok := v.(*ssa.BinOp); ok && bo.Block() == b && (bo.Op == token.ADD || bo.Op == token.SUB) {
				if _, isC := bo.Y.(*ssa.Const); isC {
					v = bo.X
				}
			}
			if ph, ok := v.(*ssa.Phi); ok && ph.Block() == b {
				if i, ok := fi.idx[ph]; ok {
					out = append(out, i)
				}
			}
		}
	}
	fi.loopCtr = out
	return out
}

// mergePaths merges paths that are at the same location (same joinKey).
func (e *Engine) mergePaths(g []*Path) *Path {
	if len(g) == 1 {
		return g[0]
	}
	B := e.B
	oldPhase := B.Phase
	B.Phase = "join"
	defer func() { B.Phase = oldPhase }()
	res := g[0]
	for _, p := range g[1:] {
		// heap
		n := len(res.Heap)
		if len(p.Heap) > n {
			n = len(p.Heap)
		}
		for len(res.Heap) < n {
			res.Heap = append(res.Heap, nil)
		}
		for i := 0; i < n; i++ {
			var a, b *Term
			a = res.Heap[i]
			if i < len(p.Heap) {
				b = p.Heap[i]
			}
			if a == b {
				continue
			}
			if a == nil {
				a = B.BV(e.cellW[i], 0)
			}
			if b == nil {
				b = B.BV(e.cellW[i], 0)
			}
			res.Heap[i] = B.Ite(p.Guard, b, a)
		}
		e.mergeCtx(res.Cur, p.Cur, p.Guard)
		for i := range res.Suspended {
			e.mergeCtx(res.Suspended[i], p.Suspended[i], p.Guard)
		}
		for i := range res.Parks {
			if res.Parks[i].Ctx != nil && p.Parks[i].Ctx != nil && res.Parks[i].Ctx != p.Parks[i].Ctx {
				e.mergeCtx(res.Parks[i].Ctx, p.Parks[i].Ctx, p.Guard)
			}
		}
		res.Guard = B.Or(res.Guard, p.Guard)
		if p.Fuel > res.Fuel {
			res.Fuel = p.Fuel
		}
	}
	e.Merges += len(g) - 1
	return res
}

// endProcess records the fate of the current process and switches to a
// suspended parent if any. Returns false when the path is finished.
func (e *Engine) endCurrent(p *Path, rec ParkRec) bool {
	p.Parks = append(p.Parks, rec)
	if n := len(p.Suspended); n > 0 {
		p.Cur = p.Suspended[n-1]
		p.Suspended = p.Suspended[:n-1]
		return true
	}
	p.Cur = nil
	e.done = append(e.done, p)
	return false
}

func (e *Engine) ConfigKey(c *Ctx) string {
	var sb strings.Builder
	for _, f := range c.Frames {
		fmt.Fprintf(&sb, "%s@%d.%d/m%d/p%d", f.Fn.String(), f.Block.Index, f.PC, f.Mode, f.Phase)
		if f.StubK != nil {
			fmt.Fprintf(&sb, "/stub:%s#%d", f.StubK.Name, f.StubK.K)
		}
		if f.ByUnwnd {
			sb.WriteString("u")
		}
		if f.IsDefer {
			sb.WriteString("d")
		}
		if f.Call != nil {
			fmt.Fprintf(&sb, "c%p", f.Call)
		}
		for _, d := range f.Defers {
			fmt.Fprintf(&sb, "[%p]", d.Site)
		}
		sb.WriteString(";")
	}
	if c.Pan != nil {
		fmt.Fprintf(&sb, "pan:%v:%v", c.Pan.Goexit, c.Pan.Recovered)
	}
	return sb.String()
}

func (e *Engine) park(p *Path) bool {
	c := p.Cur
	e.pruneDead(c)
	e.clampRegs(p, c)
	return e.endCurrent(p, ParkRec{Pid: c.Pid, Key: e.ConfigKey(c), Ctx: c})
}

func (e *Engine) runPath(p *Path) {
	for {
		if p.Guard.IsFalse() || p.Cur == nil {
			return
		}
		c := p.Cur
		if len(c.Frames) == 0 {
			crash := c.Pan != nil && !c.Pan.Goexit
			if !e.endCurrent(p, ParkRec{Pid: c.Pid, Exited: true, Crash: crash}) {
				return
			}
			continue
		}
		p.Fuel++
		if p.Fuel > e.MaxFuel {
			e.RaiseFlag(p, "unwind", p.Guard)
			e.Notes = append(e.Notes, "fuel exhausted in "+c.top().Fn.String())
			p.Cur = nil
			e.done = append(e.done, p)
			return
		}
		fr := c.top()
		if fr.joined {
			fr.joined = false
			if !e.NoMerge {
				if e.waiting == nil {
					e.waiting = map[string][]*Path{}
				}
				e.pruneDead(p.Cur)
				k := e.joinKey(p)
				e.waiting[k] = append(e.waiting[k], p)
				return
			}
		}
		if fr.Mode != 0 && fr.PC < 0 {
			// frame is processing its defers
			if !e.stepDefers(p) {
				return
			}
			continue
		}
		instr := fr.Block.Instrs[fr.PC]
		if e.Profile != nil {
			n0 := e.B.NumTerms()
			key := fr.Fn.Name() + ":" + instrPos(instr) + " " + instr.String()
			ok := e.step(p, instr)
			e.Profile[key] += e.B.NumTerms() - n0
			e.ProfileN[key]++
			if !ok {
				return
			}
			continue
		}
		if !e.step(p, instr) {
			return
		}
	}
}

// clampRegs applies the integer range bound to live integer registers.
func (e *Engine) clampRegs(p *Path, c *Ctx) {
	if e.IntBound <= 0 {
		return
	}
	for _, f := range c.Frames {
		fi := e.info(f.Fn)
		if fi.intRegs == nil {
			fi.intRegs = make([]bool, fi.n)
			for v, i := range fi.idx {
				if b, ok := v.Type().Underlying().(*types.Basic); ok && b.Kind() == types.Int {
					fi.intRegs[i] = true
				}
			}
		}
		for i, r := range f.Regs {
			if r != nil && fi.intRegs[i] && len(r) == 1 {
				nr := e.clampInt(r[0], func(c *Term) { e.RaiseFlag(p, "unwind", c) })
				if nr != r[0] {
					f.Regs[i] = Value{nr}
				}
			}
		}
	}
}

// jump moves the frame along an edge, evaluating the target's phis.
func (e *Engine) jump(fr *Frame, to *ssa.BasicBlock) {
	from := fr.Block
	pi := -1
	for i, pr := range to.Preds {
		if pr == from {
			pi = i
			break
		}
	}
	var phis []*ssa.Phi
	var vals []Value
	for _, in := range to.Instrs {
		ph, ok := in.(*ssa.Phi)
		if !ok {
			break
		}
		phis = append(phis, ph)
		vals = append(vals, e.Eval(fr, ph.Edges[pi]))
	}
	for i, ph := range phis {
		e.setReg(fr, ph, vals[i])
	}
	fr.Block = to
	fr.PC = len(phis)
	fr.joined = len(to.Preds) >= 2
}

// raisePanic starts unwinding the current process.
func (e *Engine) raisePanic(p *Path, val Value, goexit bool) {
	c := p.Cur
	c.Pan = &PanicState{Goexit: goexit, Val: val}
	fr := c.top()
	fr.Mode = 2
	fr.PC = -1
}

func (e *Engine) runtimePanic(p *Path, what string) {
	e.raisePanic(p, Value{e.B.BV(16, TagRuntime), e.B.BV(64, e.Str(what))}, false)
}

// forkFault handles a possible runtime fault of the current instruction. The
// faulting continuation is not explored: its guard is accumulated in the
// sticky "fault" obligation (which must be unsatisfiable for the other
// verdicts to be meaningful) and the path continues under the negation.
func (e *Engine) forkFault(p *Path, cond *Term, what string) {
	if cond.IsFalse() {
		return
	}
	if e.ExploreFaults {
		q := p.fork(e.B.And(p.Guard, cond))
		if !q.Guard.IsFalse() {
			e.runtimePanic(q, what)
			e.Schedule(q)
		}
	} else {
		e.cutWithFlag(p, cond, "fault")
		e.FaultKinds[what+" in "+p.Cur.top().Fn.String()] = true
	}
	p.Guard = e.B.And(p.Guard, e.B.Not(cond))
}

// cutWithFlag ends the exploration of the part of path p on which cond holds:
// a forked path carrying the raised sticky flag terminates immediately (its
// process counts as exited), so that the flag is visible under exactly that
// guard when states are merged.
func (e *Engine) cutWithFlag(p *Path, cond *Term, flag string) {
	g := e.B.And(p.Guard, cond)
	if g.IsFalse() {
		return
	}
	q := p.fork(g)
	q.Store(e, e.Flag(flag), e.B.True)
	q.Cur.Frames = nil
	q.Cur.Pan = nil
	q.Cut = true
	e.Schedule(q)
}

// stepDefers advances defer processing of the top frame (Mode 1 or 2).
func (e *Engine) stepDefers(p *Path) bool {
	c := p.Cur
	fr := c.top()
	if n := len(fr.Defers); n > 0 {
		d := fr.Defers[n-1]
		if bi, ok := d.Call.Value.(*ssa.Builtin); ok && bi.Name() == "close" && e.Concurrent {
			// deferred close is a sync point: park with the defer still on the stack
			return e.park(p)
		}
		fr.Defers = fr.Defers[:n-1]
		e.invokeDeferred(p, fr, d)
		return true
	}
	if fr.Mode == 1 {
		// normal RunDefers finished: continue after the rundefers instruction
		fr.Mode = 0
		fr.PC = fr.Phase
		fr.Phase = 0
		return true
	}
	// unwinding, no more defers in this frame
	if c.Pan != nil && c.Pan.Recovered {
		c.Pan = nil
		fr.Mode = 0
		if fr.Fn.Recover != nil {
			fr.Block = fr.Fn.Recover
			fr.PC = 0
			return true
		}
		e.doReturn(p, e.Zero(e.Layout(fr.Fn.Signature.Results())))
		return true
	}
	// propagate to caller
	c.Frames = c.Frames[:len(c.Frames)-1]
	if len(c.Frames) > 0 {
		nf := c.top()
		nf.Mode = 2
		nf.PC = -1
	}
	return true
}

func (e *Engine) invokeDeferred(p *Path, fr *Frame, d Deferred) {
	cc := d.Call
	byUnw := fr.Mode == 2
	e.dispatchCall(p, cc, d.Fn, d.Args, nil, true, byUnw, d.Site)
}

// doReturn pops the top frame delivering results to its caller.
func (e *Engine) doReturn(p *Path, res Value) {
	c := p.Cur
	fr := c.top()
	c.Frames = c.Frames[:len(c.Frames)-1]
	if len(c.Frames) == 0 {
		return
	}
	caller := c.top()
	if fr.IsDefer {
		return // caller continues its defer processing (PC == -1)
	}
	if fr.Call != nil {
		if v, ok := fr.Call.(ssa.Value); ok {
			e.setReg(caller, v, res)
		}
		caller.PC++
		caller.joined = e.MergeAfterCall
	}
}

// finishInstr: set result and advance.
func (e *Engine) finish(fr *Frame, instr ssa.Instruction, val Value) {
	if v, ok := instr.(ssa.Value); ok && val != nil && e.DebugTypes {
		if pt, ok := v.Type().(*types.Pointer); ok {
			if _, isSt := pt.Elem().Underlying().(*types.Struct); isSt {
				if lv, ok := e.B.Leaves(val[0]); ok {
					for _, a := range lv {
						if o := e.ObjAt(a); o != nil && int(a) == o.Base && o.Typ != nil && !types.Identical(o.Typ, pt.Elem()) {
							if st, ok := o.Typ.Underlying().(*types.Struct); ok && st.NumFields() > 0 && types.Identical(st.Field(0).Type(), pt.Elem()) {
								continue
							}
							dbg := ""
							if un, ok := instr.(*ssa.UnOp); ok {
								pv := e.Eval(fr, un.X)
								as, _ := e.ptrLeaves(pv[0])
								for _, x := range as {
									if oo := e.ObjAt(uint64(x)); oo != nil {
										dbg += fmt.Sprintf(" %d=%s+%d", x, oo.Label, x-oo.Base)
									}
								}
							}
							panic(EngineError{fmt.Sprintf("junk leaf %s (%s) entered %s = %s in %s; src leaves:%s", o.Label, o.Typ, v.Name(), instr, fr.Fn, dbg)})
						}
					}
				}
			}
		}
	}
	if v, ok := instr.(ssa.Value); ok && val != nil {
		e.setReg(fr, v, val)
	}
	fr.PC++
}

// step executes one instruction; returns false if the path ended.
func (e *Engine) step(p *Path, instr ssa.Instruction) bool {
	B := e.B
	c := p.Cur
	fr := c.top()
	switch in := instr.(type) {
	case *ssa.DebugRef:
		fr.PC++
	case *ssa.Alloc:
		T := in.Type().(*types.Pointer).Elem()
		lay := e.Layout(T)
		var ptr *Term
		if in.Heap {
			bound := 1
			if e.PoolBound != nil {
				bound = e.PoolBound(fr.Fn, in)
			}
			ptr = e.allocPool(p, e.siteKey(p, in, "new"), lay, ObjPlain, in.Comment+":"+T.String(), bound, func(o *Obj) { e.SetObjType(o, T) })
		} else {
			key := e.siteKey(p, in, fmt.Sprintf("local%d", len(c.Frames)))
			pl := e.pools[key]
			if pl == nil {
				o := e.newObj(lay, ObjPlain, "local:"+in.Comment)
				e.SetObjType(o, T)
				pl = &Pool{Slots: []int{o.Base}}
				e.pools[key] = pl
			}
			a := pl.Slots[0]
			for i, w := range lay {
				p.Store(e, a+i, B.BV(w, 0))
			}
			ptr = B.BV(64, uint64(a))
		}
		e.finish(fr, in, Value{ptr})
	case *ssa.BinOp:
		xv, yv := e.Eval(fr, in.X), e.Eval(fr, in.Y)
		if in.Op == token.EQL || in.Op == token.NEQ {
			if _, isI := in.X.Type().Underlying().(*types.Interface); isI && len(xv) == 2 && len(yv) == 2 {
				// comparing two interface values whose (identical) dynamic type is not comparable panics
				u := B.BV(16, TagUncomparable)
				e.forkFault(p, B.And(B.Eq(xv[0], u), B.Eq(yv[0], u)), "comparing uncomparable type")
			}
		}
		e.finish(fr, in, e.binop(in.Op, in.X.Type(), xv, yv))
	case *ssa.UnOp:
		x := e.Eval(fr, in.X)
		switch in.Op {
		case token.NOT:
			e.finish(fr, in, Value{B.Not(x[0])})
		case token.SUB:
			e.finish(fr, in, Value{B.Neg(x[0])})
		case token.XOR:
			e.finish(fr, in, Value{B.BvNot(x[0])})
		case token.MUL:
			v, nilc := e.LoadVal(p, x[0], e.Layout(in.Type()))
			if !nilc.IsFalse() {
				e.forkFault(p, nilc, "nil dereference")
			}
			e.finish(fr, in, v)
		case token.ARROW:
			return e.syncPoint(p, in)
		default:
			unsupported("unop %s", in.Op)
		}
	case *ssa.ChangeType:
		e.finish(fr, in, e.Eval(fr, in.X))
	case *ssa.ChangeInterface:
		e.finish(fr, in, e.Eval(fr, in.X))
	case *ssa.Convert:
		e.finish(fr, in, e.convert(in.X.Type(), in.Type(), e.Eval(fr, in.X)))
	case *ssa.MakeInterface:
		e.finish(fr, in, e.MakeIface(p, in.X.Type(), e.Eval(fr, in.X), e.siteKey(p, in, "")))
	case *ssa.Extract:
		tup := in.Tuple.Type().(*types.Tuple)
		off := 0
		for i := 0; i < in.Index; i++ {
			off += len(e.Layout(tup.At(i).Type()))
		}
		n := len(e.Layout(tup.At(in.Index).Type()))
		v := e.Eval(fr, in.Tuple)
		e.finish(fr, in, append(Value(nil), v[off:off+n]...))
	case *ssa.Field:
		st := in.X.Type().Underlying().(*types.Struct)
		off := e.fieldOffset(st, in.Field)
		n := len(e.Layout(st.Field(in.Field).Type()))
		v := e.Eval(fr, in.X)
		e.finish(fr, in, append(Value(nil), v[off:off+n]...))
	case *ssa.FieldAddr:
		x := e.Eval(fr, in.X)
		st := in.X.Type().Underlying().(*types.Pointer).Elem().Underlying().(*types.Struct)
		off := e.fieldOffset(st, in.Field)
		_, nilc := e.ptrLeaves(x[0])
		if !nilc.IsFalse() {
			e.forkFault(p, nilc, "nil dereference")
		}
		e.finish(fr, in, Value{B.Add(x[0], B.BV(64, uint64(off)))})
	case *ssa.IndexAddr:
		e.indexAddr(p, fr, in)
	case *ssa.Index:
		e.index(p, fr, in)
	case *ssa.Slice:
		e.sliceOp(p, fr, in)
	case *ssa.Store:
		nilc := e.StoreVal(p, e.Eval(fr, in.Addr)[0], e.Eval(fr, in.Val))
		if !nilc.IsFalse() {
			e.forkFault(p, nilc, "nil dereference")
		}
		fr.PC++
	case *ssa.Phi:
		unsupported("phi reached directly in %s", fr.Fn)
	case *ssa.Jump:
		e.jump(fr, fr.Block.Succs[0])
	case *ssa.If:
		cond := e.Eval(fr, in.Cond)[0]
		switch {
		case cond.IsTrue():
			e.jump(fr, fr.Block.Succs[0])
		case cond.IsFalse():
			e.jump(fr, fr.Block.Succs[1])
		default:
			gt := B.And(p.Guard, cond)
			gf := B.And(p.Guard, B.Not(cond))
			if gt.IsFalse() {
				p.Guard = gf
				e.jump(fr, fr.Block.Succs[1])
			} else if gf.IsFalse() {
				p.Guard = gt
				e.jump(fr, fr.Block.Succs[0])
			} else {
				if e.DebugPaths {
					if e.forkCount == nil {
						e.forkCount = map[ssa.Instruction]int{}
					}
					e.forkCount[in]++
					if e.forkCount[in] == 300 {
						lv := ""
						if b, ok := in.Cond.(*ssa.BinOp); ok {
							for _, op := range []ssa.Value{b.X, b.Y} {
								v := e.Eval(fr, op)
								if l, ok := e.B.Leaves(v[0]); ok {
									lv += fmt.Sprintf(" %s leaves=%v", op.Name(), l)
								} else {
									lv += fmt.Sprintf(" %s non-tree op=%d", op.Name(), v[0].Op)
								}
							}
						}
						fmt.Fprintf(os.Stderr, "HOT FORK in %s at %s: %s%s\n", fr.Fn, instrPos(in), in.Cond, lv)
					}
				}
				q := p.fork(gf)
				e.jump(q.Cur.top(), fr.Block.Succs[1])
				e.Schedule(q)
				p.Guard = gt
				e.jump(fr, fr.Block.Succs[0])
			}
		}
	case *ssa.Return:
		var res Value
		for _, r := range in.Results {
			res = append(res, e.Eval(fr, r)...)
		}
		e.doReturn(p, res)
	case *ssa.RunDefers:
		fr.Mode = 1
		fr.Phase = fr.PC + 1
		fr.PC = -1
	case *ssa.Panic:
		e.raisePanic(p, e.Eval(fr, in.X), false)
	case *ssa.Defer:
		d := Deferred{Call: &in.Call, Site: in}
		if !in.Call.IsInvoke() {
			if _, ok := in.Call.Value.(*ssa.Builtin); !ok {
				if _, ok := in.Call.Value.(*ssa.Function); !ok {
					d.Fn = e.Eval(fr, in.Call.Value)
				}
			}
		} else {
			d.Fn = e.Eval(fr, in.Call.Value)
		}
		for _, a := range in.Call.Args {
			d.Args = append(d.Args, e.Eval(fr, a))
		}
		fr.Defers = append(fr.Defers, d)
		fr.PC++
	case *ssa.MakeClosure:
		fn := in.Fn.(*ssa.Function)
		lay := e.closureLayout(fn)
		bound := 1
		if e.PoolBound != nil {
			bound = e.PoolBound(fr.Fn, in)
		}
		ptr := e.allocPool(p, e.siteKey(p, in, "closure"), lay, ObjClosure, "closure:"+fn.String(), bound, func(o *Obj) { o.Fn = fn; o.Tracked = true })
		var flat Value
		flat = append(flat, B.BV(64, 0))
		for _, bv := range in.Bindings {
			flat = append(flat, e.Eval(fr, bv)...)
		}
		e.StoreVal(p, ptr, flat)
		e.finish(fr, in, Value{ptr})
	case *ssa.MakeChan:
		sz := e.Eval(fr, in.Size)[0]
		if !sz.IsConst() {
			lv, ok := B.Leaves(sz)
			if !ok {
				unsupported("make(chan) with opaque symbolic capacity")
			}
			// case split over the possible capacities
			base := p.Guard
			for i, v := range lv {
				q := p
				if i < len(lv)-1 {
					q = p.fork(B.And(base, B.Eq(sz, B.BV(sz.W, v))))
				} else {
					q.Guard = B.And(base, B.Eq(sz, B.BV(sz.W, v)))
				}
				qf := q.Cur.top()
				ptr := e.makeChan(q, in.Type().Underlying().(*types.Chan).Elem(), int(v), e.siteKey(q, in, fmt.Sprintf("chan%d", v)))
				e.finish(qf, in, Value{ptr})
				if q != p {
					e.Schedule(q)
				}
			}
			return true
		}
		ptr := e.makeChan(p, in.Type().Underlying().(*types.Chan).Elem(), int(sz.Val), e.siteKey(p, in, "chan"))
		e.finish(fr, in, Value{ptr})
	case *ssa.MakeSlice:
		e.makeSlice(p, fr, in)
	case *ssa.TypeAssert:
		e.typeAssert(p, fr, in)
	case *ssa.Call:
		return e.doCall(p, fr, in)
	case *ssa.Go:
		e.doGo(p, fr, in)
	case *ssa.Send, *ssa.Select:
		return e.syncPoint(p, instr)
	case *ssa.MakeMap, *ssa.MapUpdate, *ssa.Lookup, *ssa.Range, *ssa.Next:
		return e.mapOp(p, fr, instr)
	default:
		unsupported("instruction %T in %s", instr, fr.Fn)
	}
	return true
}

func (e *Engine) typeAssert(p *Path, fr *Frame, in *ssa.TypeAssert) {
	B := e.B
	x := e.Eval(fr, in.X)
	tag, data := x[0], x[1]
	var ok *Term
	var val Value
	if iface, isI := in.AssertedType.Underlying().(*types.Interface); isI {
		ok = B.False
		for _, id := range e.tagLeaves(tag) {
			if id == 0 {
				continue
			}
			good := false
			if id >= 0xFF00 {
				good = e.reservedImplements(id, iface)
			} else {
				good = e.implements(id, iface)
			}
			if good {
				ok = B.Or(ok, B.Eq(tag, B.BV(16, id)))
			}
		}
		val = Value{B.Ite(ok, tag, B.BV(16, 0)), B.Ite(ok, data, B.BV(64, 0))}
	} else {
		ok = B.Eq(tag, B.BV(16, e.TypeID(in.AssertedType)))
		val = e.unbox(p, in.AssertedType, data)
		z := e.ZeroOf(in.AssertedType)
		for i := range val {
			val[i] = B.Ite(ok, val[i], z[i])
		}
	}
	if in.CommaOk {
		e.finish(fr, in, append(val, ok))
		return
	}
	e.forkFault(p, B.Not(ok), "type assertion failed")
	e.finish(fr, in, val)
}

func (e *Engine) reservedImplements(id uint64, iface *types.Interface) bool {
	if iface.NumMethods() == 0 {
		return true
	}
	switch id {
	case TagOpaqErr, TagMultiErr, TagRuntime:
		return iface.NumMethods() == 1 && iface.Method(0).Name() == "Error"
	case TagCtx:
		for i := 0; i < iface.NumMethods(); i++ {
			switch iface.Method(i).Name() {
			case "Err", "Done", "Deadline", "Value":
			default:
				return false
			}
		}
		return true
	}
	return false
}

func (e *Engine) elemSize(T types.Type) int {
	n := len(e.Layout(T))
	if n == 0 {
		return 1
	}
	return n
}

// indexTerm multiplies an index by the element size keeping ite-tree shape,
// case-splitting opaque indices over [0,max).
func (e *Engine) scaleIndex(idx *Term, size int, max int) *Term {
	B := e.B
	idx = B.Zext(idx, 64)
	if _, ok := B.Leaves(idx); ok {
		return B.Mul(idx, B.BV(64, uint64(size)))
	}
	if max <= 0 {
		max = 1
	}
	res := B.BV(64, uint64((max-1)*size))
	for i := max - 2; i >= 0; i-- {
		res = B.Ite(B.Eq(idx, B.BV(64, uint64(i))), B.BV(64, uint64(i*size)), res)
	}
	return res
}

func (e *Engine) maxLeaf(t *Term, dflt int) int {
	lv, ok := e.B.Leaves(t)
	if !ok {
		return dflt
	}
	m := 0
	for _, v := range lv {
		if int64(v) > int64(m) && v < 1<<30 {
			m = int(v)
		}
	}
	return m
}

// arrayCap: maximum number of elements addressable from the leaves of ptr.
func (e *Engine) maxElemsFrom(ptr *Term, size int) int {
	addrs, _ := e.ptrLeaves(ptr)
	m := 0
	for _, a := range addrs {
		o := e.ObjAt(uint64(a))
		if o == nil {
			continue
		}
		n := (o.Base + o.Size - a) / size
		if n > m {
			m = n
		}
	}
	return m
}

func (e *Engine) indexAddr(p *Path, fr *Frame, in *ssa.IndexAddr) {
	B := e.B
	x := e.Eval(fr, in.X)
	idx := e.Eval(fr, in.Index)[0]
	idx = e.idx64(idx, in.Index.Type())
	var base, length *Term
	var elem types.Type
	switch t := in.X.Type().Underlying().(type) {
	case *types.Slice:
		base, length, elem = x[0], x[1], t.Elem()
	case *types.Pointer:
		arr := t.Elem().Underlying().(*types.Array)
		base, length, elem = x[0], B.BV(64, uint64(arr.Len())), arr.Elem()
		_, nilc := e.ptrLeaves(base)
		e.forkFault(p, nilc, "nil dereference")
	default:
		unsupported("IndexAddr on %s", in.X.Type())
	}
	oob := B.Not(B.Ult(idx, length))
	e.forkFault(p, oob, "index out of range")
	size := e.elemSize(elem)
	off := e.scaleIndex(idx, size, e.maxElemsFrom(base, size))
	e.finish(fr, in, Value{e.addPtr(base, off)})
}

func (e *Engine) idx64(idx *Term, T types.Type) *Term {
	if idx.W == 64 {
		return idx
	}
	if isSigned(T) {
		return e.B.Sext(idx, 64)
	}
	return e.B.Zext(idx, 64)
}

// addPtr adds an offset (ite-tree over constants) to a pointer (ite-tree over
// object addresses). Combinations that would leave the pointed-to object are
// dropped: they are infeasible after the bounds check and would otherwise
// pollute the leaf sets with unrelated objects.
func (e *Engine) addPtr(base, off *Term) *Term { return e.addPtrX(base, off, false) }

func (e *Engine) addPtrX(base, off *Term, allowEnd bool) *Term {
	B := e.B
	bl, ok1 := B.Leaves(base)
	ol, ok2 := B.Leaves(off)
	if !ok1 || !ok2 {
		unsupported("pointer arithmetic on non ite-tree")
	}
	res := B.BV(64, 0)
	for _, b := range bl {
		o := e.ObjAt(b)
		if o == nil {
			continue
		}
		var inner *Term
		for _, d := range ol {
			a := b + d
			if a < uint64(o.Base) || a > uint64(o.Base+o.Size) {
				continue
			}
			if a == uint64(o.Base+o.Size) && o.Size > 0 {
				if !allowEnd {
					continue
				}
				a = 1 // one-past-the-end: never dereferenced; keep it non-nil but outside every object
			}
			if inner == nil {
				inner = B.BV(64, a)
			} else {
				inner = B.Ite(B.Eq(off, B.BV(64, d)), B.BV(64, a), inner)
			}
		}
		if inner == nil {
			continue
		}
		res = B.Ite(B.Eq(base, B.BV(64, b)), inner, res)
	}
	return res
}

func (e *Engine) index(p *Path, fr *Frame, in *ssa.Index) {
	x := e.Eval(fr, in.X)
	idx := e.idx64(e.Eval(fr, in.Index)[0], in.Index.Type())
	switch t := in.X.Type().Underlying().(type) {
	case *types.Array:
		n := int(t.Len())
		size := len(e.Layout(t.Elem()))
		e.forkFault(p, e.B.Not(e.B.Ult(idx, e.B.BV(64, uint64(n)))), "index out of range")
		var val Value
		for i := n - 1; i >= 0; i-- {
			cur := x[i*size : (i+1)*size]
			if val == nil {
				val = append(Value(nil), cur...)
				continue
			}
			c := e.B.Eq(idx, e.B.BV(64, uint64(i)))
			for k := range val {
				val[k] = e.B.Ite(c, cur[k], val[k])
			}
		}
		if val == nil {
			val = e.ZeroOf(t.Elem())
		}
		e.finish(fr, in, val)
	default:
		unsupported("Index on %s", in.X.Type())
	}
}

func (e *Engine) sliceOp(p *Path, fr *Frame, in *ssa.Slice) {
	B := e.B
	x := e.Eval(fr, in.X)
	var base, length, capv *Term
	var elem types.Type
	switch t := in.X.Type().Underlying().(type) {
	case *types.Slice:
		base, length, capv, elem = x[0], x[1], x[2], t.Elem()
	case *types.Pointer:
		arr := t.Elem().Underlying().(*types.Array)
		base, length, capv, elem = x[0], B.BV(64, uint64(arr.Len())), B.BV(64, uint64(arr.Len())), arr.Elem()
	default:
		unsupported("Slice on %s", in.X.Type())
	}
	lo := B.BV(64, 0)
	hi := length
	mx := capv
	if in.Low != nil {
		lo = e.idx64(e.Eval(fr, in.Low)[0], in.Low.Type())
	}
	if in.High != nil {
		hi = e.idx64(e.Eval(fr, in.High)[0], in.High.Type())
	}
	if in.Max != nil {
		mx = e.idx64(e.Eval(fr, in.Max)[0], in.Max.Type())
	}
	bad := B.Or(B.Not(B.Ule(lo, hi)), B.Not(B.Ule(hi, mx)), B.Not(B.Ule(mx, capv)))
	e.forkFault(p, bad, "slice bounds out of range")
	size := e.elemSize(elem)
	off := e.scaleIndex(lo, size, e.maxElemsFrom(base, size)+1)
	e.finish(fr, in, Value{e.addPtrX(base, off, true), B.Sub(hi, lo), B.Sub(mx, lo)})
}

func (e *Engine) makeSlice(p *Path, fr *Frame, in *ssa.MakeSlice) {
	ln := e.idx64(e.Eval(fr, in.Len)[0], in.Len.Type())
	cp := e.idx64(e.Eval(fr, in.Cap)[0], in.Cap.Type())
	elem := in.Type().Underlying().(*types.Slice).Elem()
	phys := e.maxLeaf(cp, -1)
	if phys < 0 {
		unsupported("make([]T, n) with opaque symbolic size")
	}
	ptr := e.allocArray(p, elem, phys, e.siteKey(p, in, "mkslice"), 1)
	e.finish(fr, in, Value{ptr, ln, cp})
}

func (e *Engine) allocArray(p *Path, elem types.Type, n int, key string, bound int) *Term {
	el := e.Layout(elem)
	var lay []int
	for i := 0; i < n; i++ {
		lay = append(lay, el...)
	}
	return e.allocPool(p, fmt.Sprintf("%s|n%d", key, n), lay, ObjPlain, "array:"+elem.String(), bound, func(o *Obj) { e.SetObjType(o, elem) })
}

// clampTree maps every leaf above max to max (used only after the path guard
// has excluded those leaves).
func (e *Engine) clampTree(t *Term, max uint64) *Term {
	B := e.B
	lv, ok := B.Leaves(t)
	if !ok {
		return t
	}
	need := false
	for _, v := range lv {
		if v > max {
			need = true
		}
	}
	if !need {
		return t
	}
	res := B.BV(t.W, max)
	for _, v := range lv {
		if v < max {
			res = B.Ite(B.Eq(t, B.BV(t.W, v)), B.BV(t.W, v), res)
		}
	}
	return res
}

// growCap mirrors runtime.growslice for small slices (doubling, then
// rounding up to the allocator's size classes).
func growCap(oldCap, needed, elemBytes int) int {
	newcap := oldCap * 2
	if needed > newcap {
		newcap = needed
	}
	if elemBytes <= 0 {
		return newcap
	}
	classes := []int{8, 16, 24, 32, 48, 64, 80, 96, 112, 128, 144, 160, 176, 192, 208, 224, 240, 256, 288, 320, 352, 384, 416, 448, 480, 512, 576, 640, 704, 768, 896, 1024}
	bytes := newcap * elemBytes
	for _, c := range classes {
		if c >= bytes {
			return c / elemBytes
		}
	}
	return newcap
}

func (e *Engine) elemBytes(T types.Type) int {
	return int(types.SizesFor("gc", "amd64").Sizeof(T))
}

func (e *Engine) builtinAppend(p *Path, fr *Frame, in *ssa.Call, args []Value) bool {
	B := e.B
	s, t := args[0], args[1]
	st := in.Call.Args[0].Type().Underlying().(*types.Slice)
	elem := st.Elem()
	size := e.elemSize(elem)
	el := e.Layout(elem)
	if !t[1].IsConst() {
		unsupported("append with symbolic number of appended elements")
	}
	n := int(t[1].Val)
	if n == 0 {
		e.finish(fr, in, s)
		return true
	}
	if e.AppendBound != nil {
		// Slices that grow inside merged executions need a stated length bound:
		// longer lengths raise the unwinding obligation and are cut.
		if lim := e.AppendBound(fr.Fn); lim > 0 {
			tooLong := B.Not(B.Ult(s[1], B.BV(64, uint64(lim))))
			if !tooLong.IsFalse() {
				e.cutWithFlag(p, tooLong, "unwind")
				p.Guard = B.And(p.Guard, B.Not(tooLong))
				if p.Guard.IsFalse() {
					return true
				}
				s = Value{s[0], e.clampTree(s[1], uint64(lim-1)), e.clampTree(s[2], uint64(growCap(lim, lim, 8)))}
			}
		}
	}
	newLen := B.Add(s[1], B.BV(64, uint64(n)))
	inPlace := B.Ule(newLen, s[2])
	// elements to append
	var items []Value
	for i := 0; i < n; i++ {
		v, _ := e.LoadVal(p, e.addPtr(t[0], B.BV(64, uint64(i*size))), el)
		items = append(items, v)
	}
	doInPlace := func(q *Path) {
		qf := q.Cur.top()
		for i := 0; i < n; i++ {
			off := e.scaleIndex(B.Add(s[1], B.BV(64, uint64(i))), size, e.maxElemsFrom(s[0], size))
			e.StoreVal(q, e.addPtr(s[0], off), items[i])
		}
		e.finish(qf, in, Value{s[0], newLen, s[2]})
	}
	doGrow := func(q *Path) {
		qf := q.Cur.top()
		maxLen := e.maxLeaf(s[1], -1)
		maxCap := e.maxLeaf(s[2], -1)
		if maxLen < 0 || maxCap < 0 {
			unsupported("append on slice with opaque symbolic len/cap")
		}
		eb := e.elemBytes(elem)
		phys := growCap(maxCap, maxLen+n, eb)
		bound := 1
		if e.PoolBound != nil {
			bound = e.PoolBound(qf.Fn, in)
		}
		np := e.allocArray(q, elem, phys, e.siteKey(q, in, "append"), bound)
		// logical capacity per old (len,cap)
		var newCap *Term
		lcaps, _ := B.Leaves(s[2])
		llens, _ := B.Leaves(s[1])
		newCap = B.BV(64, uint64(phys))
		for _, oc := range lcaps {
			for _, ol := range llens {
				if ol > oc {
					continue
				}
				nc := growCap(int(oc), int(ol)+n, eb)
				newCap = B.Ite(B.And(B.Eq(s[2], B.BV(64, oc)), B.Eq(s[1], B.BV(64, ol))), B.BV(64, uint64(nc)), newCap)
			}
		}
		// copy old elements
		for i := 0; i < maxLen; i++ {
			live := B.Ult(B.BV(64, uint64(i)), s[1])
			if live.IsFalse() {
				continue
			}
			old, _ := e.LoadVal(q, e.addPtr(s[0], B.BV(64, uint64(i*size))), el)
			dst := e.addPtr(np, B.BV(64, uint64(i*size)))
			if live.IsTrue() {
				e.StoreVal(q, dst, old)
			} else {
				cur, _ := e.LoadVal(q, dst, el)
				v := make(Value, len(el))
				for k := range el {
					v[k] = B.Ite(live, old[k], cur[k])
				}
				e.StoreVal(q, dst, v)
			}
		}
		for i := 0; i < n; i++ {
			off := e.scaleIndex(B.Add(s[1], B.BV(64, uint64(i))), size, phys)
			e.StoreVal(q, e.addPtr(np, off), items[i])
		}
		e.finish(qf, in, Value{np, newLen, newCap})
	}
	switch {
	case inPlace.IsTrue():
		doInPlace(p)
	case inPlace.IsFalse():
		doGrow(p)
	default:
		q := p.fork(B.And(p.Guard, B.Not(inPlace)))
		p.Guard = B.And(p.Guard, inPlace)
		if !q.Guard.IsFalse() {
			doGrow(q)
			e.Schedule(q)
		}
		if p.Guard.IsFalse() {
			return true
		}
		doInPlace(p)
	}
	return true
}

// ---------- calls ----------

func (e *Engine) doCall(p *Path, fr *Frame, in *ssa.Call) bool {
	cc := &in.Call
	var args []Value
	for _, a := range cc.Args {
		args = append(args, e.Eval(fr, a))
	}
	var fnv Value
	if cc.IsInvoke() {
		fnv = e.Eval(fr, cc.Value)
	} else {
		switch cc.Value.(type) {
		case *ssa.Builtin, *ssa.Function:
		default:
			fnv = e.Eval(fr, cc.Value)
		}
	}
	return e.dispatchCall(p, cc, fnv, args, in, false, false, in)
}

// dispatchCall performs a call. For ordinary calls `call` is the call
// instruction receiving the result; deferred calls pass call=nil.
func (e *Engine) dispatchCall(p *Path, cc *ssa.CallCommon, fnv Value, args []Value, call *ssa.Call, isDefer, byUnw bool, site ssa.Instruction) bool {
	B := e.B
	fr := p.Cur.top()
	push := func(q *Path, fn *ssa.Function, a []Value, bind []Value) {
		if intr, ok := e.Intrinsics[fn.String()]; ok {
			intr(e, q, &ICall{Site: site, Call: call, Args: a, IsDefer: isDefer, Fn: fn})
			return
		}
		if fn.Synthetic == "package initializer" && (fn.Pkg == nil || !e.InitPkgs[fn.Pkg.Pkg.Path()]) {
			(&ICall{Site: site, Call: call}).Return(e, q, Value{})
			return
		}
		if e.MaxStack > 0 && len(q.Cur.Frames) >= e.MaxStack {
			// recursion bound: deeper calls raise the unwinding obligation and the path is cut
			e.RaiseFlag(q, "unwind", e.B.True)
			e.StackCuts++
			q.Cur.Frames = nil
			q.Cur.Pan = nil
			q.Cut = true
			return
		}
		if fn.Blocks == nil && e.MissingBody != nil {
			if intr := e.MissingBody(fn); intr != nil {
				intr(e, q, &ICall{Site: site, Call: call, Args: a, IsDefer: isDefer, Fn: fn})
				return
			}
		}
		nf := e.NewFrame(fn, a, bind)
		nf.IsDefer = isDefer
		nf.ByUnwnd = byUnw
		nf.Depth = len(q.Cur.Frames)
		if call != nil {
			nf.Call = call
		}
		q.Cur.Frames = append(q.Cur.Frames, nf)
	}
	if cc.IsInvoke() {
		tag, data := fnv[0], fnv[1]
		leaves := e.tagLeaves(tag)
		var live []uint64
		for _, id := range leaves {
			if !B.And(p.Guard, B.Eq(tag, B.BV(16, id))).IsFalse() {
				live = append(live, id)
			}
		}
		for i, id := range live {
			q := p
			if i < len(live)-1 {
				q = p.fork(B.And(p.Guard, B.Eq(tag, B.BV(16, id))))
				p.Guard = B.And(p.Guard, B.Not(B.Eq(tag, B.BV(16, id))))
			}
			if id == 0 {
				e.runtimePanic(q, "nil interface method call")
			} else if id >= 0xFF00 {
				if e.InvokeHook == nil || !e.InvokeHook(e, q, id, cc.Method.Name(), fnv, &ICall{Site: site, Call: call, Args: args, IsDefer: isDefer}) {
					unsupported("invoke %s on reserved tag %x", cc.Method.Name(), id)
				}
			} else {
				T := e.typeByID[id]
				sel := e.P.Prog.MethodSets.MethodSet(T).Lookup(cc.Method.Pkg(), cc.Method.Name())
				if sel == nil {
					unsupported("method %s not found on %s", cc.Method.Name(), T)
				}
				fn := e.P.Prog.MethodValue(sel)
				recv := e.unbox(q, T, data)
				push(q, fn, append([]Value{recv}, args...), nil)
			}
			if q != p {
				e.Schedule(q)
			}
		}
		_ = fr
		return true
	}
	switch callee := cc.Value.(type) {
	case *ssa.Builtin:
		return e.builtin(p, callee, cc, args, call, site)
	case *ssa.Function:
		push(p, callee, args, nil)
		return true
	}
	// dynamic function value
	addrs, nilc := e.ptrLeaves(fnv[0])
	if !nilc.IsFalse() {
		e.forkFault(p, nilc, "nil func call")
	}
	var live []int
	for _, a := range addrs {
		if !B.And(p.Guard, B.Eq(fnv[0], B.BV(64, uint64(a)))).IsFalse() {
			live = append(live, a)
		}
	}
	for i, a := range live {
		q := p
		if i < len(live)-1 {
			c := B.Eq(fnv[0], B.BV(64, uint64(a)))
			q = p.fork(B.And(p.Guard, c))
			p.Guard = B.And(p.Guard, B.Not(c))
		}
		o := e.ObjAt(uint64(a))
		if o == nil || o.Kind != ObjClosure {
			lbl := "<nil>"
			if o != nil {
				lbl = o.Label
			}
			dbg := ""
			for _, x := range addrs {
				if oo := e.ObjAt(uint64(x)); oo != nil {
					dbg += fmt.Sprintf(" %d=%s+%d", x, oo.Label, x-oo.Base)
				}
			}
			if cl, ok := cc.Value.(*ssa.UnOp); ok {
				pv := e.Eval(p.Cur.top(), cl.X)
				as, _ := e.ptrLeaves(pv[0])
				dbg += " | ptr leaves:"
				for _, x := range as {
					if oo := e.ObjAt(uint64(x)); oo != nil {
						dbg += fmt.Sprintf(" %d=%s+%d", x, oo.Label, x-oo.Base)
					}
				}
			}
			unsupported("call through non-function object %d (%s) in %s: %s", a, lbl, p.Cur.top().Fn, dbg)
		}
		if o.Stub != nil {
			e.callStub(q, o.Stub, &ICall{Site: site, Call: call, Args: args, IsDefer: isDefer})
		} else {
			var bind []Value
			off := 1
			for _, fv := range o.Fn.FreeVars {
				n := len(e.Layout(fv.Type()))
				v := make(Value, n)
				for k := 0; k < n; k++ {
					v[k] = q.Load(e, o.Base+off+k)
					if e.Race != nil {
						e.Race.Read(q, o.Base+off+k, e.B.True)
					}
					if e.Plumb != nil {
						e.Plumb.Read(q, o.Base+off+k, e.B.True)
					}
				}
				off += n
				bind = append(bind, v)
			}
			push(q, o.Fn, args, bind)
		}
		if q != p {
			e.Schedule(q)
		}
	}
	return true
}

func (e *Engine) builtin(p *Path, bi *ssa.Builtin, cc *ssa.CallCommon, args []Value, call *ssa.Call, site ssa.Instruction) bool {
	B := e.B
	fr := p.Cur.top()
	fin := func(v Value) {
		if call != nil {
			e.finish(fr, call, v)
		}
	}
	switch bi.Name() {
	case "len":
		switch cc.Args[0].Type().Underlying().(type) {
		case *types.Slice:
			fin(Value{args[0][1]})
		case *types.Basic:
			s := args[0][0]
			lv, ok := B.Leaves(s)
			if !ok {
				unsupported("len of symbolic string")
			}
			res := B.BV(64, 0)
			for _, id := range lv {
				res = B.Ite(B.Eq(s, B.BV(64, id)), B.BV(64, uint64(len(e.strByID[id]))), res)
			}
			fin(Value{res})
		case *types.Map:
			fin(Value{e.mapLen(p, args[0][0])})
		case *types.Chan:
			// number of buffered elements (read at the current point of the segment)
			res := B.BV(64, 0)
			for _, o := range e.chanObjs(args[0][0]) {
				res = B.Ite(B.Eq(args[0][0], B.BV(64, uint64(o.Base))), B.Zext(e.chanCount(p, o), 64), res)
			}
			fin(Value{res})
		default:
			unsupported("len of %s", cc.Args[0].Type())
		}
	case "cap":
		switch cc.Args[0].Type().Underlying().(type) {
		case *types.Slice:
			fin(Value{args[0][2]})
		case *types.Chan:
			res := B.BV(64, 0)
			for _, o := range e.chanObjs(args[0][0]) {
				res = B.Ite(B.Eq(args[0][0], B.BV(64, uint64(o.Base))), B.BV(64, uint64(o.Cap)), res)
			}
			fin(Value{res})
		default:
			unsupported("cap of %s", cc.Args[0].Type())
		}
	case "append":
		if call == nil {
			unsupported("deferred append")
		}
		return e.builtinAppend(p, fr, call, args)
	case "close":
		if call == nil {
			unsupported("deferred close outside concurrent mode")
		}
		return e.syncPoint(p, call)
	case "recover":
		c := p.Cur
		if c.Pan != nil && !c.Pan.Goexit && !c.Pan.Recovered && fr.ByUnwnd {
			c.Pan.Recovered = true
			fin(c.Pan.Val)
		} else {
			fin(Value{B.BV(16, 0), B.BV(64, 0)})
		}
	case "print", "println":
		fin(Value{})
	case "ssa:wrapnilchk":
		_, nilc := e.ptrLeaves(args[0][0])
		e.forkFault(p, nilc, "nil receiver in wrapper")
		fin(args[0])
	case "copy":
		unsupported("builtin copy")
	case "delete":
		return e.mapDelete(p, args, call)
	default:
		unsupported("builtin %s", bi.Name())
	}
	return true
}

func (e *Engine) doGo(p *Path, fr *Frame, in *ssa.Go) {
	cc := &in.Call
	var args []Value
	for _, a := range cc.Args {
		args = append(args, e.Eval(fr, a))
	}
	fr.PC++
	e.spawn(p, cc, args, fr, in)
}

// ---------- maps: bounded association lists ----------
//
// A map object holds a count and MapCap (key, value) slots in insertion
// order. Iteration visits the present entries in an order chosen by a solver
// variable (Go randomises map iteration order).

const MapCap = 3

func (e *Engine) mapLayout(kl, vl []int) []int {
	lay := []int{8}
	for i := 0; i < MapCap; i++ {
		lay = append(lay, kl...)
		lay = append(lay, vl...)
	}
	return lay
}

func (e *Engine) mapObjs(m *Term) []*Obj {
	addrs, _ := e.ptrLeaves(m)
	var out []*Obj
	for _, a := range addrs {
		if o := e.ObjAt(uint64(a)); o != nil && o.Kind == ObjMap && o.Base == a {
			out = append(out, o)
		}
	}
	return out
}

func (e *Engine) mapSlot(p *Path, o *Obj, i int) (Value, Value) {
	kn, vn := len(o.KeyLay), len(o.ElemLay)
	base := o.Base + 1 + i*(kn+vn)
	k := make(Value, kn)
	v := make(Value, vn)
	for j := 0; j < kn; j++ {
		k[j] = p.Load(e, base+j)
	}
	for j := 0; j < vn; j++ {
		v[j] = p.Load(e, base+kn+j)
	}
	return k, v
}

func (e *Engine) mapLen(p *Path, m *Term) *Term {
	B := e.B
	res := B.BV(64, 0)
	for _, o := range e.mapObjs(m) {
		res = B.Ite(B.Eq(m, B.BV(64, uint64(o.Base))), B.Zext(p.Load(e, o.Base), 64), res)
	}
	return res
}

func (e *Engine) mapOp(p *Path, fr *Frame, instr ssa.Instruction) bool {
	B := e.B
	switch in := instr.(type) {
	case *ssa.MakeMap:
		mt := in.Type().Underlying().(*types.Map)
		kl, vl := e.Layout(mt.Key()), e.Layout(mt.Elem())
		ptr := e.allocPool(p, e.siteKey(p, in, "map"), e.mapLayout(kl, vl), ObjMap, "map:"+mt.String(), 1, func(o *Obj) {
			o.KeyLay, o.ElemLay = kl, vl
			o.Tracked = true
		})
		e.finish(fr, in, Value{ptr})
	case *ssa.MapUpdate:
		m := e.Eval(fr, in.Map)[0]
		k, v := e.Eval(fr, in.Key), e.Eval(fr, in.Value)
		_, nilc := e.ptrLeaves(m)
		e.forkFault(p, nilc, "assignment to entry in nil map")
		for _, o := range e.mapObjs(m) {
			isThis := B.Eq(m, B.BV(64, uint64(o.Base)))
			n := p.Load(e, o.Base)
			found := B.False
			kn, vn := len(o.KeyLay), len(o.ElemLay)
			for i := 0; i < MapCap; i++ {
				ki, vi := e.mapSlot(p, o, i)
				here := B.And(isThis, B.Ult(B.BV(8, uint64(i)), n), e.valEq(ki, k))
				appendHere := B.And(isThis, B.Not(found), B.Eq(n, B.BV(8, uint64(i))))
				found = B.Or(found, here)
				base := o.Base + 1 + i*(kn+vn)
				_ = vi
				for j := 0; j < kn; j++ {
					p.Store(e, base+j, B.Ite(appendHere, k[j], p.Load(e, base+j)))
				}
				for j := 0; j < vn; j++ {
					p.Store(e, base+kn+j, B.Ite(B.Or(here, appendHere), v[j], p.Load(e, base+kn+j)))
				}
			}
			// appendHere above used the running `found`; recompute the final decision for the count
			isNew := B.And(isThis, B.Not(found))
			e.RaiseFlag(p, "unwind", B.And(isNew, B.Not(B.Ult(n, B.BV(8, MapCap)))))
			p.Store(e, o.Base, B.Ite(isNew, B.Add(n, B.BV(8, 1)), n))
		}
		fr.PC++
	case *ssa.Lookup:
		mt, ok := in.X.Type().Underlying().(*types.Map)
		if !ok {
			unsupported("string indexing")
		}
		m := e.Eval(fr, in.X)[0]
		k := e.Eval(fr, in.Index)
		val := e.ZeroOf(mt.Elem())
		okT := B.False
		for _, o := range e.mapObjs(m) {
			isThis := B.Eq(m, B.BV(64, uint64(o.Base)))
			n := p.Load(e, o.Base)
			for i := 0; i < MapCap; i++ {
				ki, vi := e.mapSlot(p, o, i)
				here := B.And(isThis, B.Ult(B.BV(8, uint64(i)), n), e.valEq(ki, k))
				okT = B.Or(okT, here)
				val = e.iteVal(here, vi, val)
			}
		}
		if in.CommaOk {
			e.finish(fr, in, append(append(Value(nil), val...), okT))
		} else {
			e.finish(fr, in, val)
		}
	case *ssa.Range:
		if _, ok := in.X.Type().Underlying().(*types.Map); !ok {
			unsupported("range over string")
		}
		m := e.Eval(fr, in.X)[0]
		// iterator object: [map pointer][position][order]
		key := e.siteKey(p, in, "iter")
		it := e.allocPool(p, key, []int{64, 8, 8}, ObjPlain, "mapiter", 1, nil)
		e.mapIters++
		order := B.Var(fmt.Sprintf("maporder!%d", e.mapIters), 8)
		e.StoreVal(p, it, Value{m, B.BV(8, 0), order})
		e.finish(fr, in, Value{it})
	case *ssa.Next:
		if in.IsString {
			unsupported("range over string")
		}
		it := e.Eval(fr, in.Iter)[0]
		st, _ := e.LoadVal(p, it, []int{64, 8, 8})
		m, pos, order := st[0], st[1], st[2]
		tup := in.Type().(*types.Tuple)
		kT, vT := tup.At(1).Type(), tup.At(2).Type()
		kz, vz := e.ZeroOf(kT), e.ZeroOf(vT)
		n := B.Extract(7, 0, e.mapLen(p, m))
		okT := B.Ult(pos, n)
		// the pos-th visited slot under the chosen order (permutations of up to 3 slots)
		perms := [][]int{{0, 1, 2}, {0, 2, 1}, {1, 0, 2}, {1, 2, 0}, {2, 0, 1}, {2, 1, 0}}
		kv, vv := kz, vz
		for _, o := range e.mapObjs(m) {
			isThis := B.Eq(m, B.BV(64, uint64(o.Base)))
			for pi, perm := range perms {
				rank := B.BV(8, 0) // number of earlier entries of the permutation that are present
				for j := 0; j < MapCap; j++ {
					slot := perm[j]
					present := B.Ult(B.BV(8, uint64(slot)), n)
					// the order variable is taken modulo the number of permutations
					ordIs := B.Eq(B.Urem(order, B.BV(8, uint64(len(perms)))), B.BV(8, uint64(pi)))
					cond := B.And(isThis, ordIs, present, B.Eq(rank, pos))
					rank = B.Add(rank, B.BoolToBV(present, 8))
					if cond.IsFalse() {
						continue
					}
					ks, vs := e.mapSlot(p, o, slot)
					if len(ks) == len(kv) {
						kv = e.iteVal(cond, ks, kv)
					}
					if len(vs) == len(vv) {
						vv = e.iteVal(cond, vs, vv)
					}
				}
			}
		}
		e.StoreVal(p, B.Add(it, B.BV(64, 1)), Value{B.Add(pos, B.BV(8, 1))})
		res := Value{okT}
		res = append(res, kv...)
		res = append(res, vv...)
		e.finish(fr, in, res)
	default:
		unsupported("map instruction %T", instr)
	}
	return true
}

func (e *Engine) mapDelete(p *Path, args []Value, call *ssa.Call) bool {
	unsupported("delete(map)")
	return false
}

// RunSequential runs fn to completion on a single process without yield
// points and returns the finished paths (used for package init and kernels).
func (e *Engine) RunSequential(fn *ssa.Function, args []Value, heap []*Term) []*Path {
	path := &Path{Guard: e.B.True, Heap: append([]*Term(nil), heap...), Cur: &Ctx{Pid: 0, Frames: []*Frame{e.NewFrame(fn, args, nil)}}}
	e.Schedule(path)
	return e.RunAll()
}
