package engine

// Generic runner for K-layer kernels.

import (
	"crypto/sha1"
	"encoding/json"
	"fmt"
	"os"
	"path/filepath"
	"regexp"
	"sort"
	"strings"
	"time"
)

type KernelSpec struct {
	Prop        string
	Name        string
	PkgDir      string // directory of the package under analysis (in /repo)
	PkgPath     string
	HarnessTxt  string // path of the harness template in /verif/harness
	Subst       map[string]string
	Entry       string // harness entry function (after substitution)
	Tags        string
	InitPkg     bool // run the package initialiser first
	Fuel        int
	MaxStack    int
	AssertNames map[int]string
	CoverNames  map[int]string
	Setup       func(k *Kernel)
	Program     *Program // preloaded program (skips Load)
	Fixed       map[int]int64
	GenMode     string   // cff generation mode of the corpus this spec was loaded from
	GenKeep     []string // corpus file subset (modifier mode)
}

type KernelResult struct {
	Spec       string             `json:"kernel"`
	Entry      string             `json:"entry"`
	Subst      map[string]string  `json:"parameters"`
	Paths      int                `json:"paths"`
	Terms      int                `json:"terms"`
	Merges     int                `json:"state_merges"`
	BuildS     float64            `json:"build_seconds"`
	LoadS      float64            `json:"load_seconds"`
	SolveS     float64            `json:"solve_seconds"`
	Queries    int                `json:"queries"`
	Obs        []ObResult         `json:"obligations"`
	Encoded    []string           `json:"functions_encoded"`
	Error      string             `json:"error,omitempty"`
	Inconcl    bool               `json:"inconclusive,omitempty"`
	Vacuous    bool               `json:"vacuous,omitempty"`
	Failed     []KernelCex        `json:"counterexamples,omitempty"`
	Witnesses  []map[string]int64 `json:"witness_inputs,omitempty"`
	Oblig      int                `json:"n_obligations"`
	Disch      int                `json:"discharged"`
	NonTriv    int                `json:"covers_satisfied"`
	FaultKinds []string           `json:"fault_kinds_checked,omitempty"`
	RaceSites  []string           `json:"unordered_access_sites,omitempty"`
}

type KernelCex struct {
	Assertion string           `json:"assertion"`
	Model     map[string]int64 `json:"model"`
	Replay    string           `json:"replay,omitempty"`
	Status    string           `json:"status,omitempty"`
	Output    string           `json:"output,omitempty"`
}

func (s *KernelSpec) source() (string, error) {
	raw, err := os.ReadFile(s.HarnessTxt)
	if err != nil {
		return "", err
	}
	src := string(raw)
	// longest key first: one key may contain another (RDEPTH / DEPTH)
	var keys []string
	for k := range s.Subst {
		keys = append(keys, k)
	}
	sort.Slice(keys, func(i, j int) bool {
		if len(keys[i]) != len(keys[j]) {
			return len(keys[i]) > len(keys[j])
		}
		return keys[i] < keys[j]
	})
	for _, k := range keys {
		src = strings.Replace(src, k, s.Subst[k], -1)
	}
	return src, nil
}

var declsRe = regexp.MustCompile(`(?s)// BEGIN-DECLS.*?// END-DECLS`)

func RunKernel(spec *KernelSpec, solver string, timeoutMs int) (res *KernelResult) {
	res = &KernelResult{Spec: spec.Name, Entry: spec.Entry, Subst: spec.Subst}
	defer func() {
		if r := recover(); r != nil {
			if ee, ok := r.(EngineError); ok {
				res.Error = ee.Msg
				res.Inconcl = true
				return
			}
			panic(r)
		}
	}()
	var src string
	var err error
	if spec.Program == nil {
		src, err = spec.source()
		if err != nil {
			res.Error = err.Error()
			res.Inconcl = true
			return
		}
	}
	t0 := time.Now()
	ovName := filepath.Join(spec.PkgDir, "zz_verif_kernel.go")
	P := spec.Program
	if P == nil {
		P, err = Load(spec.PkgDir, map[string][]byte{ovName: []byte(src)}, spec.Tags, ".")
		if err != nil {
			res.Error = "load: " + err.Error()
			res.Inconcl = true
			return
		}
	}
	res.LoadS = time.Since(t0).Seconds()
	t1 := time.Now()
	k := NewKernel(P, spec.PkgPath)
	if spec.Fuel > 0 {
		k.E.MaxFuel = spec.Fuel
	}
	for s, v := range spec.Fixed {
		k.Fixed[s] = v
	}
	k.E.MergeAfterCall = true
	k.E.MaxStack = spec.MaxStack
	k.E.DebugPaths = os.Getenv("VERIF_VERBOSE") != ""
	if spec.Setup != nil {
		spec.Setup(k)
	}
	var initHeap []*Term
	sp := P.SSA[spec.PkgPath]
	if sp == nil {
		res.Error = "package not loaded: " + spec.PkgPath
		res.Inconcl = true
		return
	}
	if spec.InitPkg {
		k.E.InitPkgs[spec.PkgPath] = true
		ps := k.E.RunSequential(sp.Func("init"), nil, nil)
		if len(ps) != 1 {
			unsupported("package init forked")
		}
		initHeap = ps[0].Heap
	}
	fn := sp.Func(spec.Entry)
	if fn == nil {
		res.Error = "entry not found: " + spec.Entry
		res.Inconcl = true
		return
	}
	k.Run(fn, initHeap)
	res.BuildS = time.Since(t1).Seconds()
	res.Paths = len(k.Paths)
	res.Terms = k.E.B.NumTerms()
	res.Merges = k.E.Merges
	for f := range k.E.Encoded {
		res.Encoded = append(res.Encoded, f)
	}
	sort.Strings(res.Encoded)
	for f := range k.E.FaultKinds {
		res.FaultKinds = append(res.FaultKinds, f)
	}
	sort.Strings(res.FaultKinds)
	for f := range k.E.RaceSites {
		res.RaceSites = append(res.RaceSites, f)
	}
	sort.Strings(res.RaceSites)
	sv, err := NewSolver(k.E.B, solver, timeoutMs)
	if err != nil {
		res.Error = err.Error()
		res.Inconcl = true
		return
	}
	defer sv.Close()
	if f := os.Getenv("SMTLOG"); f != "" {
		w, _ := os.Create(f)
		sv.Log = w
		defer w.Close()
	}
	B := k.E.B
	check := func(t *Term, want []*Term) (Verdict, map[int]uint64) {
		t2 := time.Now()
		v, m, err := sv.Check([]*Term{t}, want)
		res.SolveS += time.Since(t2).Seconds()
		res.Queries++
		if err != nil {
			res.Error = err.Error()
			return Unknown, nil
		}
		return v, m
	}
	modelOf := func(m map[int]uint64) map[string]int64 {
		out := map[string]int64{}
		for name, v := range k.NdVars {
			out[name] = sext64(m[v.ID], maxInt(v.W, 1))
		}
		for _, v := range k.E.B.Vars() {
			if _, ok := m[v.ID]; ok {
				out[v.Name] = sext64(m[v.ID], maxInt(v.W, 1))
			}
		}
		for _, a := range k.E.B.Apps() {
			if _, ok := m[a.ID]; !ok {
				continue
			}
			key := a.Name + "("
			for i, x := range a.Args {
				if i > 0 {
					key += ","
				}
				key += fmt.Sprint(sext64(m[x.ID], maxInt(x.W, 1)))
			}
			out[key+")"] = sext64(m[a.ID], maxInt(a.W, 1))
		}
		return out
	}
	type ob struct {
		name    string
		t       *Term
		wantSat bool
	}
	var obs []ob
	obs = append(obs, ob{"harness runs to completion on some input (reachability)", k.Completed(), true})
	obs = append(obs, ob{"unwinding / pool bounds", k.FlagTerm("unwind"), false})
	obs = append(obs, ob{"no runtime fault (nil dereference, index out of range, failed type assertion)", k.FlagTerm("fault"), false})
	obs = append(obs, ob{"no Go panic escapes the harness (an unrecovered panic in generated code or in a job would crash the process)", k.Crashed(), false})
	if k.E.Plumb != nil && spec.Prop == "C12" {
		obs = append(obs, ob{"generated plumbing relies only on the scheduler's happens-before guarantees (job-written cells read by dependents, or by the caller after a nil Wait; otherwise atomically)", k.FlagTerm("C12gen"), false})
	}
	for _, n := range k.FlagNames("assert:") {
		var id int
		fmt.Sscanf(n, "assert:%d", &id)
		nm := spec.AssertNames[id]
		if nm == "" {
			nm = n
		}
		obs = append(obs, ob{nm, k.FlagTerm(n), false})
	}
	for _, n := range k.FlagNames("cover:") {
		var id int
		fmt.Sscanf(n, "cover:%d", &id)
		nm := spec.CoverNames[id]
		if nm == "" {
			nm = n
		}
		obs = append(obs, ob{"witness: " + nm, k.FlagTerm(n), true})
	}
	_ = B
	for _, o := range obs {
		t2 := time.Now()
		v, m := check(o.t, k.ModelTerms())
		res.Obs = append(res.Obs, ObResult{Prop: spec.Prop, Name: o.name, Verdict: v.String(), WantSat: o.wantSat, Seconds: time.Since(t2).Seconds()})
		if !o.wantSat {
			res.Oblig++
		}
		switch {
		case v == Unknown:
			res.Inconcl = true
		case o.wantSat && v == Unsat:
			res.Vacuous = true
		case o.wantSat && v == Sat:
			res.NonTriv++
			if len(res.Witnesses) < 3 {
				res.Witnesses = append(res.Witnesses, modelOf(m))
			}
		case !o.wantSat && v == Unsat:
			res.Disch++
		case !o.wantSat && v == Sat:
			res.Failed = append(res.Failed, KernelCex{Assertion: o.name, Model: modelOf(m)})
		}
	}
	return res
}

func maxInt(a, b int) int {
	if a > b {
		return a
	}
	return b
}

// WriteKernelReplay writes a concrete replay (the harness with the verifNd*
// declarations replaced by the model's values, plus a test that runs it).
func WriteKernelReplay(dir string, spec *KernelSpec, cex KernelCex) (string, error) {
	src, err := spec.source()
	if err != nil {
		return "", err
	}
	var ints, bools []string
	var names []string
	for n := range cex.Model {
		names = append(names, n)
	}
	sort.Strings(names)
	for _, n := range names {
		var site int64
		switch {
		case strings.HasPrefix(n, "nd_int_"):
			fmt.Sscanf(n, "nd_int_%d", &site)
			ints = append(ints, fmt.Sprintf("%d: %d", site, cex.Model[n]))
		case strings.HasPrefix(n, "nd_bool_"):
			fmt.Sscanf(n, "nd_bool_%d", &site)
			bools = append(bools, fmt.Sprintf("%d: %v", site, cex.Model[n] != 0))
		}
	}
	decls := fmt.Sprintf(`var verifModelInt = map[int]int{%s}
var verifModelBool = map[int]bool{%s}
var verifFailed []int

func verifNdInt(site int) int   { return verifModelInt[site] }
func verifNdBool(site int) bool { return verifModelBool[site] }
func verifAssume(c bool) {
	if !c {
		panic("verif: assumption violated in replay")
	}
}
func verifAssert(c bool, id int) {
	if !c {
		verifFailed = append(verifFailed, id)
	}
}
func verifCover(c bool, id int) {}
`, strings.Join(ints, ", "), strings.Join(bools, ", "))
	concrete := declsRe.ReplaceAllString(src, decls)
	pkgName := "main"
	if m := regexp.MustCompile(`(?m)^package (\w+)`).FindStringSubmatch(src); m != nil {
		pkgName = m[1]
	}
	test := fmt.Sprintf(`package %s

import (
	"fmt"
	"testing"
)

func TestVerifReplay(t *testing.T) {
	%s()
	if len(verifFailed) > 0 {
		fmt.Printf("REPRODUCED property=%s assertion(s) %%v failed on the real code: %s\n", verifFailed)
		return
	}
	fmt.Printf("NOT-REPRODUCED property=%s\n")
	t.Fail()
}
`, pkgName, spec.Entry, spec.Prop, strings.Replace(cex.Assertion, `"`, `'`, -1), spec.Prop)
	h := sha1.New()
	js, _ := json.Marshal(cex.Model)
	h.Write(js)
	h.Write([]byte(spec.Entry))
	id := fmt.Sprintf("%s-%x", spec.Prop, h.Sum(nil)[:6])
	rd := filepath.Join(dir, id)
	if err := os.MkdirAll(rd, 0o755); err != nil {
		return "", err
	}
	hf := filepath.Join(rd, "harness_concrete.go")
	tf := filepath.Join(rd, "replay_test.go")
	os.WriteFile(hf, []byte(concrete), 0o644)
	os.WriteFile(tf, []byte(test), 0o644)
	rf := ReplayFile{Property: spec.Prop, Layer: "K", PkgDir: spec.PkgDir, Tags: spec.Tags, Model: cex.Model, What: cex.Assertion,
		Overlays: map[string]string{
			filepath.Join(spec.PkgDir, "zz_verif_kernel.go"):      hf,
			filepath.Join(spec.PkgDir, "zz_verif_replay_test.go"): tf,
		},
		Cmd: "vcheck replay " + filepath.Join(rd, "replay.json")}
	out, _ := json.MarshalIndent(rf, "", " ")
	path := filepath.Join(rd, "replay.json")
	return path, os.WriteFile(path, out, 0o644)
}
