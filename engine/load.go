package engine

import (
	"fmt"
	"go/token"
	"go/types"
	"os"
	"strings"

	"golang.org/x/tools/go/packages"
	"golang.org/x/tools/go/ssa"
	"golang.org/x/tools/go/ssa/ssautil"
)

// Program is the read-only SSA of the packages under analysis, loaded from the
// working tree (plus overlay harness files). Safe for concurrent use after Load.
type Program struct {
	Prog  *ssa.Program
	Pkgs  []*packages.Package
	SSA   map[string]*ssa.Package
	Fset  *token.FileSet
	Funcs map[string]*ssa.Function // by String() name
}

// Load loads patterns in dir with the given overlay (path -> contents) and
// builds SSA for the whole dependency closure.
func Load(dir string, overlay map[string][]byte, tags string, patterns ...string) (*Program, error) {
	cfg := &packages.Config{
		Mode: packages.NeedName | packages.NeedFiles | packages.NeedCompiledGoFiles | packages.NeedImports |
			packages.NeedDeps | packages.NeedTypes | packages.NeedSyntax | packages.NeedTypesInfo | packages.NeedTypesSizes | packages.NeedModule,
		Dir:     dir,
		Overlay: overlay,
		Env:     append(os.Environ(), "GOFLAGS=-mod=mod", "GOPROXY=off", "GOSUMDB=off", "GOTOOLCHAIN=local"),
	}
	if tags != "" {
		cfg.BuildFlags = []string{"-tags=" + tags}
	}
	pkgs, err := packages.Load(cfg, patterns...)
	if err != nil {
		return nil, err
	}
	var errs []string
	packages.Visit(pkgs, nil, func(p *packages.Package) {
		for _, e := range p.Errors {
			errs = append(errs, e.Error())
		}
	})
	if len(errs) > 0 {
		return nil, fmt.Errorf("package errors:\n%s", strings.Join(errs, "\n"))
	}
	prog, _ := ssautil.AllPackages(pkgs, ssa.InstantiateGenerics)
	prog.Build()
	p := &Program{Prog: prog, Pkgs: pkgs, SSA: map[string]*ssa.Package{}, Funcs: map[string]*ssa.Function{}}
	if len(pkgs) > 0 {
		p.Fset = pkgs[0].Fset
	}
	for _, sp := range prog.AllPackages() {
		p.SSA[sp.Pkg.Path()] = sp
	}
	for fn := range ssautil.AllFunctions(prog) {
		p.Funcs[fn.String()] = fn
	}
	return p, nil
}

func (p *Program) Func(pkg, name string) *ssa.Function {
	sp := p.SSA[pkg]
	if sp == nil {
		return nil
	}
	return sp.Func(name)
}

func (p *Program) Method(pkg, typ, name string, ptr bool) *ssa.Function {
	sp := p.SSA[pkg]
	if sp == nil {
		return nil
	}
	tn := sp.Type(typ)
	if tn == nil {
		return nil
	}
	var T types.Type = tn.Type()
	if ptr {
		T = types.NewPointer(T)
	}
	sel := p.Prog.MethodSets.MethodSet(T).Lookup(sp.Pkg, name)
	if sel == nil {
		return nil
	}
	return p.Prog.MethodValue(sel)
}
