package engine

// Engine-level model of go.uber.org/multierr and errors.Is: an error is viewed
// as a list (nil -> [], multierr -> its items, anything else -> [err]);
// Append is nil-absorbing and flattening, as documented by multierr.

func multiLayoutN(n int) []int {
	lay := []int{8}
	for i := 0; i < n; i++ {
		lay = append(lay, 16, 64)
	}
	return lay
}

func (e *Engine) MultiItems(p *Path, err Value, capN int) (*Term, []Value) {
	B := e.B
	isNil := B.Eq(err[0], B.BV(16, 0))
	isMulti := B.Eq(err[0], B.BV(16, TagMultiErr))
	var obj Value
	if isMulti.IsFalse() {
		obj = e.Zero(multiLayoutN(capN))
	} else {
		ptr := B.Ite(isMulti, err[1], B.BV(64, 0))
		obj, _ = e.LoadVal(p, ptr, multiLayoutN(capN))
	}
	n := B.Ite(isNil, B.BV(8, 0), B.Ite(isMulti, obj[0], B.BV(8, 1)))
	items := make([]Value, capN)
	for i := 0; i < capN; i++ {
		it := Value{obj[1+2*i], obj[2+2*i]}
		if i == 0 {
			it = e.iteVal(isMulti, it, err)
		}
		items[i] = it
	}
	return n, items
}

func (e *Engine) MultiAppend(p *Path, ic *ICall, left, right Value, capN int) Value {
	B := e.B
	ln, li := e.MultiItems(p, left, capN)
	rn, ri := e.MultiItems(p, right, capN)
	lnil := B.Eq(left[0], B.BV(16, 0))
	rnil := B.Eq(right[0], B.BV(16, 0))
	bound := capN
	ptr := e.allocPool(p, "multierr|"+e.siteKey(p, ic.Site, ""), multiLayoutN(capN), ObjPlain, "multierr", bound, nil)
	total := B.Add(ln, rn)
	e.RaiseFlag(p, "unwind", B.And(B.Not(lnil), B.Not(rnil), B.Ult(B.BV(8, uint64(capN)), total)))
	obj := Value{total}
	for i := 0; i < capN; i++ {
		it := Value{B.BV(16, 0), B.BV(64, 0)}
		for sh := 0; sh <= i; sh++ {
			it = e.iteVal(B.Eq(ln, B.BV(8, uint64(sh))), ri[i-sh], it)
		}
		it = e.iteVal(B.Ult(B.BV(8, uint64(i)), ln), li[i], it)
		obj = append(obj, it...)
	}
	e.StoreVal(p, ptr, obj)
	comb := Value{B.BV(16, TagMultiErr), ptr}
	return e.iteVal(lnil, right, e.iteVal(rnil, left, comb))
}

// ErrorsIs: identity, or membership for a multierr.
func (e *Engine) ErrorsIs(p *Path, err, target Value, capN int) *Term {
	B := e.B
	res := B.And(e.valEq(err, target), B.Not(B.Eq(target[0], B.BV(16, 0))))
	isMulti := B.Eq(err[0], B.BV(16, TagMultiErr))
	if !isMulti.IsFalse() {
		n, items := e.MultiItems(p, err, capN)
		m := B.False
		for i, it := range items {
			m = B.Or(m, B.And(B.Ult(B.BV(8, uint64(i)), n), e.valEq(it, target)))
		}
		res = B.Or(res, B.And(isMulti, m))
	}
	return res
}
