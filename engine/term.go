package engine

// Hash-consed, simplifying term library over Bool and fixed-width bit-vectors.
// Terms are immutable; one *TB per cube (no sharing across goroutines).

import (
	"fmt"
	"math/bits"
	"sort"
	"strings"
)

type Op uint8

const (
	OpConst Op = iota
	OpVar
	OpNot
	OpAnd
	OpOr
	OpIte
	OpEq
	OpAdd
	OpSub
	OpMul
	OpNeg
	OpUlt
	OpUle
	OpSlt
	OpSle
	OpBvAnd
	OpBvOr
	OpBvXor
	OpBvNot
	OpShl
	OpLshr
	OpAshr
	OpUdiv
	OpUrem
	OpSdiv
	OpSrem
	OpExtract
	OpZext
	OpSext
	OpApp // uninterpreted function application
)

var opSMT = map[Op]string{
	OpNot: "not", OpAnd: "and", OpOr: "or", OpIte: "ite", OpEq: "=",
	OpAdd: "bvadd", OpSub: "bvsub", OpMul: "bvmul", OpNeg: "bvneg",
	OpUlt: "bvult", OpUle: "bvule", OpSlt: "bvslt", OpSle: "bvsle",
	OpBvAnd: "bvand", OpBvOr: "bvor", OpBvXor: "bvxor", OpBvNot: "bvnot",
	OpShl: "bvshl", OpLshr: "bvlshr", OpAshr: "bvashr",
	OpUdiv: "bvudiv", OpUrem: "bvurem", OpSdiv: "bvsdiv", OpSrem: "bvsrem",
}

// Term: W==0 means Bool, otherwise a bit-vector of width W (<=64).
type Term struct {
	ID   int
	Op   Op
	W    int
	Args []*Term
	Val  uint64 // OpConst (bool: 0/1)
	Name string // OpVar, OpApp
	Hi   int    // OpExtract hi; OpZext/OpSext: extra bits
	Lo   int
}

type TB struct {
	tab        map[string]*Term
	next       int
	True       *Term
	False      *Term
	memo       map[[4]int]*Term // pushdown memo
	leafc      map[int][]uint64
	ufs        map[string]ufSig
	vars       []*Term
	fresh      int
	apps       []*Term
	Phase      string
	PhaseCount map[string]int
}

type ufSig struct {
	args []int
	ret  int
}

func NewTB() *TB {
	b := &TB{tab: map[string]*Term{}, memo: map[[4]int]*Term{}, leafc: map[int][]uint64{}, ufs: map[string]ufSig{}}
	b.True = b.mk(&Term{Op: OpConst, W: 0, Val: 1})
	b.False = b.mk(&Term{Op: OpConst, W: 0, Val: 0})
	return b
}

func (b *TB) NumTerms() int { return b.next }

func (b *TB) mk(t *Term) *Term {
	var sb strings.Builder
	fmt.Fprintf(&sb, "%d:%d:%d:%d:%d:%s", t.Op, t.W, t.Val, t.Hi, t.Lo, t.Name)
	for _, a := range t.Args {
		fmt.Fprintf(&sb, ",%d", a.ID)
	}
	k := sb.String()
	if e, ok := b.tab[k]; ok {
		return e
	}
	t.ID = b.next
	b.next++
	if b.Phase != "" {
		if b.PhaseCount == nil {
			b.PhaseCount = map[string]int{}
		}
		b.PhaseCount[b.Phase]++
	}
	b.tab[k] = t
	if t.Op == OpVar {
		b.vars = append(b.vars, t)
	}
	return t
}

func mask(w int) uint64 {
	if w >= 64 {
		return ^uint64(0)
	}
	return (uint64(1) << uint(w)) - 1
}

func (t *Term) IsConst() bool { return t.Op == OpConst }
func (t *Term) IsTrue() bool  { return t.Op == OpConst && t.W == 0 && t.Val == 1 }
func (t *Term) IsFalse() bool { return t.Op == OpConst && t.W == 0 && t.Val == 0 }

func (b *TB) Bool(v bool) *Term {
	if v {
		return b.True
	}
	return b.False
}

func (b *TB) BV(w int, v uint64) *Term {
	if w == 0 {
		return b.Bool(v != 0)
	}
	return b.mk(&Term{Op: OpConst, W: w, Val: v & mask(w)})
}

func (b *TB) Var(name string, w int) *Term {
	return b.mk(&Term{Op: OpVar, W: w, Name: name})
}

func (b *TB) Fresh(prefix string, w int) *Term {
	b.fresh++
	return b.Var(fmt.Sprintf("%s!%d", prefix, b.fresh), w)
}

func (b *TB) App(name string, ret int, args ...*Term) *Term {
	if _, ok := b.ufs[name]; !ok {
		sig := ufSig{ret: ret}
		for _, a := range args {
			sig.args = append(sig.args, a.W)
		}
		b.ufs[name] = sig
	}
	if len(args) == 0 {
		return b.Var(name, ret)
	}
	n := b.next
	r := b.mk(&Term{Op: OpApp, W: ret, Name: name, Args: args})
	if r.ID >= n {
		b.apps = append(b.apps, r)
	}
	return r
}

func (b *TB) Not(x *Term) *Term {
	if x.W != 0 {
		panic("Not on non-bool")
	}
	if x.IsConst() {
		return b.Bool(x.Val == 0)
	}
	if x.Op == OpNot {
		return x.Args[0]
	}
	return b.mk(&Term{Op: OpNot, W: 0, Args: []*Term{x}})
}

func isNegOf(x, y *Term) bool {
	return (x.Op == OpNot && x.Args[0] == y) || (y.Op == OpNot && y.Args[0] == x)
}

func (b *TB) And(xs ...*Term) *Term {
	r := b.True
	for _, x := range xs {
		r = b.and2(r, x)
	}
	return r
}

func (b *TB) and2(x, y *Term) *Term {
	if x.W != 0 || y.W != 0 {
		panic("And on non-bool")
	}
	if x.IsFalse() || y.IsFalse() {
		return b.False
	}
	if x.IsTrue() {
		return y
	}
	if y.IsTrue() {
		return x
	}
	if x == y {
		return x
	}
	if isNegOf(x, y) {
		return b.False
	}
	// absorption with a direct conjunct
	if x.Op == OpAnd && (x.Args[0] == y || x.Args[1] == y) {
		return x
	}
	if y.Op == OpAnd && (y.Args[0] == x || y.Args[1] == x) {
		return y
	}
	if x.Op == OpAnd && (isNegOf(x.Args[0], y) || isNegOf(x.Args[1], y)) {
		return b.False
	}
	if y.Op == OpAnd && (isNegOf(y.Args[0], x) || isNegOf(y.Args[1], x)) {
		return b.False
	}
	// (v == c1) && (v == c2) with distinct constants
	if x.Op == OpEq && y.Op == OpEq && x.Args[0] == y.Args[0] && x.Args[1].IsConst() && y.Args[1].IsConst() && x.Args[1] != y.Args[1] {
		return b.False
	}
	if x.Op == OpAnd && y.Op == OpEq {
		for _, xa := range x.Args {
			if xa.Op == OpEq && xa.Args[0] == y.Args[0] && xa.Args[1].IsConst() && y.Args[1].IsConst() && xa.Args[1] != y.Args[1] {
				return b.False
			}
		}
	}
	if x.ID > y.ID {
		x, y = y, x
	}
	return b.mk(&Term{Op: OpAnd, W: 0, Args: []*Term{x, y}})
}

func (b *TB) Or(xs ...*Term) *Term {
	r := b.False
	for _, x := range xs {
		r = b.or2(r, x)
	}
	return r
}

func (b *TB) or2(x, y *Term) *Term {
	if x.W != 0 || y.W != 0 {
		panic("Or on non-bool")
	}
	if x.IsTrue() || y.IsTrue() {
		return b.True
	}
	if x.IsFalse() {
		return y
	}
	if y.IsFalse() {
		return x
	}
	if x == y {
		return x
	}
	if isNegOf(x, y) {
		return b.True
	}
	if x.Op == OpOr && (x.Args[0] == y || x.Args[1] == y) {
		return x
	}
	if y.Op == OpOr && (y.Args[0] == x || y.Args[1] == x) {
		return y
	}
	if x.ID > y.ID {
		x, y = y, x
	}
	return b.mk(&Term{Op: OpOr, W: 0, Args: []*Term{x, y}})
}

func (b *TB) Implies(x, y *Term) *Term { return b.Or(b.Not(x), y) }

func (b *TB) Ite(c, x, y *Term) *Term {
	if c.W != 0 {
		panic("Ite cond non-bool")
	}
	if x.W != y.W {
		panic(fmt.Sprintf("Ite sort mismatch %d vs %d", x.W, y.W))
	}
	if c.IsTrue() {
		return x
	}
	if c.IsFalse() {
		return y
	}
	if x == y {
		return x
	}
	if c.Op == OpNot {
		return b.Ite(c.Args[0], y, x)
	}
	if x.W == 0 {
		if x.IsTrue() && y.IsFalse() {
			return c
		}
		if x.IsFalse() && y.IsTrue() {
			return b.Not(c)
		}
		if x.IsTrue() {
			return b.Or(c, y)
		}
		if x.IsFalse() {
			return b.And(b.Not(c), y)
		}
		if y.IsTrue() {
			return b.Or(b.Not(c), x)
		}
		if y.IsFalse() {
			return b.And(c, x)
		}
	}
	// ite(c, x, ite(c, _, z)) = ite(c, x, z); ite(c, ite(c, w, _), y) = ite(c, w, y)
	if y.Op == OpIte && y.Args[0] == c {
		return b.Ite(c, x, y.Args[2])
	}
	if x.Op == OpIte && x.Args[0] == c {
		return b.Ite(c, x.Args[1], y)
	}
	// ite(c, x, ite(d, x, z)) = ite(c||d, x, z)
	if y.Op == OpIte && y.Args[1] == x {
		return b.Ite(b.Or(c, y.Args[0]), x, y.Args[2])
	}
	return b.mk(&Term{Op: OpIte, W: x.W, Args: []*Term{c, x, y}})
}

// constLeafTree reports whether t is a constant, an ite-tree whose leaves are
// constants, or such a tree shifted by a constant (x + c). This is the shape
// of every pointer, tag and small counter in the engine. Shifts are kept lazy
// so that field addressing creates no copies of the underlying tree.
func (b *TB) constLeafTree(t *Term) bool {
	switch {
	case t.IsConst():
		return true
	case t.Op == OpAdd && t.Args[1].IsConst():
		return b.constLeafTree(t.Args[0])
	case t.Op != OpIte:
		return false
	}
	k := [4]int{0, t.ID, 0, 0}
	if r, ok := b.memo[k]; ok {
		return r == b.True
	}
	r := b.constLeafTree(t.Args[1]) && b.constLeafTree(t.Args[2])
	b.memo[k] = b.Bool(r)
	return r
}

// Leaves returns the distinct constant leaves of a const-leaf tree (sorted).
func (b *TB) Leaves(t *Term) ([]uint64, bool) {
	if !b.constLeafTree(t) {
		return nil, false
	}
	return b.leaves(t), true
}

func (b *TB) leaves(t *Term) []uint64 {
	if t.IsConst() {
		return []uint64{t.Val}
	}
	if r, ok := b.leafc[t.ID]; ok {
		return r
	}
	var out []uint64
	if t.Op == OpAdd {
		c := t.Args[1].Val
		for _, v := range b.leaves(t.Args[0]) {
			out = append(out, (v+c)&mask(t.W))
		}
		out = uniqSorted(out)
	} else {
		a, c := b.leaves(t.Args[1]), b.leaves(t.Args[2])
		out = make([]uint64, 0, len(a)+len(c))
		out = append(out, a...)
		out = append(out, c...)
		out = uniqSorted(out)
	}
	b.leafc[t.ID] = out
	return out
}

func uniqSorted(a []uint64) []uint64 {
	sort.Slice(a, func(i, j int) bool { return a[i] < a[j] })
	n := 0
	for i, v := range a {
		if i == 0 || v != a[n-1] {
			a[n] = v
			n++
		}
	}
	return a[:n]
}

// pushOff applies f to every leaf (plus accumulated offset) of a const-leaf
// tree, rebuilding the ite structure; memoised per (kind, node, param, offset).
func (b *TB) pushOff(kind, param int, t *Term, off uint64, f func(v uint64) *Term) *Term {
	if t.IsConst() {
		return f((t.Val + off) & mask(t.W))
	}
	key := [4]int{kind, t.ID, param, int(off)}
	if r, ok := b.memo[key]; ok {
		return r
	}
	var r *Term
	if t.Op == OpAdd {
		r = b.pushOff(kind, param, t.Args[0], off+t.Args[1].Val, f)
	} else {
		r = b.Ite(t.Args[0], b.pushOff(kind, param, t.Args[1], off, f), b.pushOff(kind, param, t.Args[2], off, f))
	}
	b.memo[key] = r
	return r
}

func (b *TB) eqConstPush(t *Term, k *Term) *Term {
	// strip lazy shifts so that conditions are shared with the base tree
	kv := k.Val
	for t.Op == OpAdd && t.Args[1].IsConst() {
		kv = (kv - t.Args[1].Val) & mask(t.W)
		t = t.Args[0]
	}
	if t.IsConst() {
		return b.Bool(t.Val == kv)
	}
	return b.pushOff(1, int(kv), t, 0, func(v uint64) *Term { return b.Bool(v == kv) })
}

func (b *TB) Eq(x, y *Term) *Term {
	if x.W != y.W {
		panic(fmt.Sprintf("Eq sort mismatch %d vs %d", x.W, y.W))
	}
	if x == y {
		return b.True
	}
	if x.IsConst() && y.IsConst() {
		return b.Bool(x.Val == y.Val)
	}
	if x.W == 0 {
		if x.IsTrue() {
			return y
		}
		if y.IsTrue() {
			return x
		}
		if x.IsFalse() {
			return b.Not(y)
		}
		if y.IsFalse() {
			return b.Not(x)
		}
	}
	if x.IsConst() {
		x, y = y, x
	}
	if y.IsConst() && b.constLeafTree(x) {
		return b.eqConstPush(x, y)
	}
	if b.constLeafTree(x) && b.constLeafTree(y) {
		// both ite-trees over constants: disjunction over common leaves
		lx, _ := b.Leaves(x)
		ly, _ := b.Leaves(y)
		if len(lx)*len(ly) <= 4096 {
			set := map[uint64]bool{}
			for _, v := range ly {
				set[v] = true
			}
			r := b.False
			for _, v := range lx {
				if set[v] {
					c := b.BV(x.W, v)
					r = b.Or(r, b.And(b.eqConstPush(x, c), b.eqConstPush(y, c)))
				}
			}
			return r
		}
	}
	if !y.IsConst() && x.ID > y.ID {
		x, y = y, x
	}
	return b.mk(&Term{Op: OpEq, W: 0, Args: []*Term{x, y}})
}

// lift2 applies f to every pair of leaves of two const-leaf trees (small
// domains only), producing again a tree / Boolean structure.
func (b *TB) lift2(x, y *Term, f func(a, c uint64) *Term) *Term {
	lx, ly := b.leaves(x), b.leaves(y)
	if len(lx)*len(ly) > 144 {
		return nil
	}
	var res *Term
	for i := len(lx) - 1; i >= 0; i-- {
		var inner *Term
		for j := len(ly) - 1; j >= 0; j-- {
			v := f(lx[i], ly[j])
			if inner == nil {
				inner = v
			} else {
				inner = b.Ite(b.eqConstPush(y, b.BV(y.W, ly[j])), v, inner)
			}
		}
		if res == nil {
			res = inner
		} else {
			res = b.Ite(b.eqConstPush(x, b.BV(x.W, lx[i])), inner, res)
		}
	}
	return res
}

// ClampSigned maps every leaf of a const-leaf tree that lies outside
// [lo,hi] (signed) to hi and returns the condition under which that happens.
func (b *TB) ClampSigned(t *Term, lo, hi int64) (*Term, *Term) {
	if !b.constLeafTree(t) {
		return t, b.False
	}
	out := b.False
	need := false
	for _, v := range b.leaves(t) {
		s := sext64(v, t.W)
		if s < lo || s > hi {
			need = true
			out = b.Or(out, b.eqConstPush(t, b.BV(t.W, v)))
		}
	}
	if !need {
		return t, b.False
	}
	w := t.W
	r := b.pushOff(900, int(lo)*100003+int(hi), t, 0, func(v uint64) *Term {
		s := sext64(v, w)
		if s < lo || s > hi {
			return b.BV(w, uint64(hi))
		}
		return b.BV(w, v)
	})
	return r, out
}

func (b *TB) Ne(x, y *Term) *Term { return b.Not(b.Eq(x, y)) }

func sext64(v uint64, w int) int64 {
	if w >= 64 {
		return int64(v)
	}
	sh := uint(64 - w)
	return int64(v<<sh) >> sh
}

func (b *TB) binArith(op Op, x, y *Term) *Term {
	if x.W != y.W || x.W == 0 {
		panic(fmt.Sprintf("arith sort mismatch op=%d %d vs %d", op, x.W, y.W))
	}
	w := x.W
	if x.IsConst() && y.IsConst() {
		a, c := x.Val, y.Val
		var r uint64
		switch op {
		case OpAdd:
			r = a + c
		case OpSub:
			r = a - c
		case OpMul:
			r = a * c
		case OpBvAnd:
			r = a & c
		case OpBvOr:
			r = a | c
		case OpBvXor:
			r = a ^ c
		case OpShl:
			if c >= uint64(w) {
				r = 0
			} else {
				r = a << c
			}
		case OpLshr:
			if c >= uint64(w) {
				r = 0
			} else {
				r = a >> c
			}
		case OpAshr:
			s := sext64(a, w)
			if c >= uint64(w) {
				if s < 0 {
					r = ^uint64(0)
				} else {
					r = 0
				}
			} else {
				r = uint64(s >> c)
			}
		case OpUdiv:
			if c == 0 {
				r = mask(w)
			} else {
				r = a / c
			}
		case OpUrem:
			if c == 0 {
				r = a
			} else {
				r = a % c
			}
		case OpSdiv:
			sa, sc := sext64(a, w), sext64(c, w)
			if sc == 0 {
				if sa < 0 {
					r = 1
				} else {
					r = mask(w)
				}
			} else if sc == -1 {
				r = uint64(-sa)
			} else {
				r = uint64(sa / sc)
			}
		case OpSrem:
			sa, sc := sext64(a, w), sext64(c, w)
			if sc == 0 {
				r = a
			} else if sc == -1 {
				r = 0
			} else {
				r = uint64(sa % sc)
			}
		}
		return b.BV(w, r)
	}
	if !x.IsConst() && !y.IsConst() && b.constLeafTree(x) && b.constLeafTree(y) {
		if r := b.lift2(x, y, func(a, c uint64) *Term { return b.binArith(op, b.BV(w, a), b.BV(w, c)) }); r != nil {
			return r
		}
	}
	if op != OpAdd && !(op == OpSub && y.IsConst()) {
		// constant (op) tree: map over the leaves
		if x.IsConst() && b.constLeafTree(y) {
			c := x.Val
			return b.pushOff(700+int(op), x.ID, y, 0, func(v uint64) *Term { return b.binArith(op, b.BV(w, c), b.BV(w, v)) })
		}
		if y.IsConst() && b.constLeafTree(x) {
			c := y.Val
			return b.pushOff(800+int(op), y.ID, x, 0, func(v uint64) *Term { return b.binArith(op, b.BV(w, v), b.BV(w, c)) })
		}
	}
	switch op {
	case OpAdd:
		if x.IsConst() && x.Val == 0 {
			return y
		}
		if y.IsConst() && y.Val == 0 {
			return x
		}
		if x.IsConst() {
			x, y = y, x
		}
		// (x + c1) + c2
		if y.IsConst() && x.Op == OpAdd && x.Args[1].IsConst() {
			return b.binArith(OpAdd, x.Args[0], b.BV(w, x.Args[1].Val+y.Val))
		}
		if x.IsConst() {
			x, y = y, x
		}
	case OpSub:
		if y.IsConst() && y.Val == 0 {
			return x
		}
		if x == y {
			return b.BV(w, 0)
		}
		if y.IsConst() {
			return b.binArith(OpAdd, x, b.BV(w, -y.Val))
		}
	case OpMul:
		if (x.IsConst() && x.Val == 0) || (y.IsConst() && y.Val == 0) {
			return b.BV(w, 0)
		}
		if x.IsConst() && x.Val == 1 {
			return y
		}
		if y.IsConst() && y.Val == 1 {
			return x
		}
		if y.IsConst() && b.constLeafTree(x) {
			c := y.Val
			return b.pushOff(100+int(op), y.ID, x, 0, func(v uint64) *Term { return b.BV(w, v*c) })
		}
		if x.IsConst() && b.constLeafTree(y) {
			c := x.Val
			return b.pushOff(100+int(op), x.ID, y, 0, func(v uint64) *Term { return b.BV(w, v*c) })
		}
	}
	return b.mk(&Term{Op: op, W: w, Args: []*Term{x, y}})
}

func (b *TB) Add(x, y *Term) *Term   { return b.binArith(OpAdd, x, y) }
func (b *TB) Sub(x, y *Term) *Term   { return b.binArith(OpSub, x, y) }
func (b *TB) Mul(x, y *Term) *Term   { return b.binArith(OpMul, x, y) }
func (b *TB) BvAnd(x, y *Term) *Term { return b.binArith(OpBvAnd, x, y) }
func (b *TB) BvOr(x, y *Term) *Term  { return b.binArith(OpBvOr, x, y) }
func (b *TB) BvXor(x, y *Term) *Term { return b.binArith(OpBvXor, x, y) }
func (b *TB) Shl(x, y *Term) *Term   { return b.binArith(OpShl, x, y) }
func (b *TB) Lshr(x, y *Term) *Term  { return b.binArith(OpLshr, x, y) }
func (b *TB) Ashr(x, y *Term) *Term  { return b.binArith(OpAshr, x, y) }
func (b *TB) Udiv(x, y *Term) *Term  { return b.binArith(OpUdiv, x, y) }
func (b *TB) Urem(x, y *Term) *Term  { return b.binArith(OpUrem, x, y) }
func (b *TB) Sdiv(x, y *Term) *Term  { return b.binArith(OpSdiv, x, y) }
func (b *TB) Srem(x, y *Term) *Term  { return b.binArith(OpSrem, x, y) }

func (b *TB) Neg(x *Term) *Term {
	if x.IsConst() {
		return b.BV(x.W, -x.Val)
	}
	return b.mk(&Term{Op: OpNeg, W: x.W, Args: []*Term{x}})
}

func (b *TB) BvNot(x *Term) *Term {
	if x.IsConst() {
		return b.BV(x.W, ^x.Val)
	}
	return b.mk(&Term{Op: OpBvNot, W: x.W, Args: []*Term{x}})
}

func (b *TB) cmp(op Op, x, y *Term) *Term {
	if x.W != y.W || x.W == 0 {
		panic(fmt.Sprintf("cmp sort mismatch %d vs %d", x.W, y.W))
	}
	w := x.W
	ev := func(a, c uint64) bool {
		switch op {
		case OpUlt:
			return a < c
		case OpUle:
			return a <= c
		case OpSlt:
			return sext64(a, w) < sext64(c, w)
		default:
			return sext64(a, w) <= sext64(c, w)
		}
	}
	if x.IsConst() && y.IsConst() {
		return b.Bool(ev(x.Val, y.Val))
	}
	if x == y {
		return b.Bool(op == OpUle || op == OpSle)
	}
	if !x.IsConst() && !y.IsConst() && b.constLeafTree(x) && b.constLeafTree(y) {
		if r := b.lift2(x, y, func(a, c uint64) *Term { return b.Bool(ev(a, c)) }); r != nil {
			return r
		}
	}
	if y.IsConst() && b.constLeafTree(x) {
		c := y.Val
		return b.pushOff(200+int(op), y.ID, x, 0, func(v uint64) *Term { return b.Bool(ev(v, c)) })
	}
	if x.IsConst() && b.constLeafTree(y) {
		c := x.Val
		return b.pushOff(300+int(op), x.ID, y, 0, func(v uint64) *Term { return b.Bool(ev(c, v)) })
	}
	return b.mk(&Term{Op: op, W: 0, Args: []*Term{x, y}})
}

func (b *TB) Ult(x, y *Term) *Term { return b.cmp(OpUlt, x, y) }
func (b *TB) Ule(x, y *Term) *Term { return b.cmp(OpUle, x, y) }
func (b *TB) Slt(x, y *Term) *Term { return b.cmp(OpSlt, x, y) }
func (b *TB) Sle(x, y *Term) *Term { return b.cmp(OpSle, x, y) }

func (b *TB) Extract(hi, lo int, x *Term) *Term {
	if lo == 0 && hi == x.W-1 {
		return x
	}
	w := hi - lo + 1
	if x.IsConst() {
		return b.BV(w, x.Val>>uint(lo))
	}
	if b.constLeafTree(x) {
		return b.pushOff(400+hi*64+lo, 0, x, 0, func(v uint64) *Term { return b.BV(w, v>>uint(lo)) })
	}
	return b.mk(&Term{Op: OpExtract, W: w, Args: []*Term{x}, Hi: hi, Lo: lo})
}

func (b *TB) Zext(x *Term, to int) *Term {
	if to == x.W {
		return x
	}
	if to < x.W {
		return b.Extract(to-1, 0, x)
	}
	if x.IsConst() {
		return b.BV(to, x.Val)
	}
	if b.constLeafTree(x) {
		return b.pushOff(5000+to, 0, x, 0, func(v uint64) *Term { return b.BV(to, v) })
	}
	return b.mk(&Term{Op: OpZext, W: to, Args: []*Term{x}, Hi: to - x.W})
}

func (b *TB) Sext(x *Term, to int) *Term {
	if to == x.W {
		return x
	}
	if to < x.W {
		return b.Extract(to-1, 0, x)
	}
	if x.IsConst() {
		return b.BV(to, uint64(sext64(x.Val, x.W)))
	}
	if b.constLeafTree(x) {
		fw := x.W
		return b.pushOff(6000+to, 0, x, 0, func(v uint64) *Term { return b.BV(to, uint64(sext64(v, fw))) })
	}
	return b.mk(&Term{Op: OpSext, W: to, Args: []*Term{x}, Hi: to - x.W})
}

// BoolToBV converts a Bool to a bit-vector 0/1 of width w.
func (b *TB) BoolToBV(c *Term, w int) *Term { return b.Ite(c, b.BV(w, 1), b.BV(w, 0)) }

func sortSMT(w int) string {
	if w == 0 {
		return "Bool"
	}
	return fmt.Sprintf("(_ BitVec %d)", w)
}

func constSMT(t *Term) string {
	if t.W == 0 {
		if t.Val != 0 {
			return "true"
		}
		return "false"
	}
	if t.W%4 == 0 {
		return fmt.Sprintf("#x%0*x", t.W/4, t.Val)
	}
	return fmt.Sprintf("#b%0*b", t.W, t.Val)
}

func smtName(s string) string {
	return "|" + strings.NewReplacer("|", "_", "\\", "_").Replace(s) + "|"
}

// Emitter writes incremental definitions: each non-leaf term becomes a
// zero-ary define-fun n<ID>; variables are declared once.
type Emitter struct {
	b       *TB
	defined map[int]bool
	ufdecl  map[string]bool
}

func NewEmitter(b *TB) *Emitter {
	return &Emitter{b: b, defined: map[int]bool{}, ufdecl: map[string]bool{}}
}

func (e *Emitter) ref(t *Term) string {
	switch t.Op {
	case OpConst:
		return constSMT(t)
	case OpVar:
		return smtName(t.Name)
	}
	return fmt.Sprintf("n%d", t.ID)
}

// Define emits whatever is needed so that Ref(t) is a valid expression.
func (e *Emitter) Define(sb *strings.Builder, roots ...*Term) {
	// iterative post-order
	type fr struct {
		t *Term
		i int
	}
	for _, root := range roots {
		if e.defined[root.ID] {
			continue
		}
		stack := []fr{{root, 0}}
		for len(stack) > 0 {
			f := &stack[len(stack)-1]
			if e.defined[f.t.ID] {
				stack = stack[:len(stack)-1]
				continue
			}
			if f.i < len(f.t.Args) {
				a := f.t.Args[f.i]
				f.i++
				if !e.defined[a.ID] {
					stack = append(stack, fr{a, 0})
				}
				continue
			}
			t := f.t
			stack = stack[:len(stack)-1]
			e.defined[t.ID] = true
			switch t.Op {
			case OpConst:
			case OpVar:
				fmt.Fprintf(sb, "(declare-const %s %s)\n", smtName(t.Name), sortSMT(t.W))
			default:
				if t.Op == OpApp && !e.ufdecl[t.Name] {
					e.ufdecl[t.Name] = true
					sig := e.b.ufs[t.Name]
					var as []string
					for _, w := range sig.args {
						as = append(as, sortSMT(w))
					}
					fmt.Fprintf(sb, "(declare-fun %s (%s) %s)\n", smtName(t.Name), strings.Join(as, " "), sortSMT(sig.ret))
				}
				fmt.Fprintf(sb, "(define-fun n%d () %s ", t.ID, sortSMT(t.W))
				e.expr(sb, t)
				sb.WriteString(")\n")
			}
		}
	}
}

func (e *Emitter) expr(sb *strings.Builder, t *Term) {
	switch t.Op {
	case OpExtract:
		fmt.Fprintf(sb, "((_ extract %d %d) %s)", t.Hi, t.Lo, e.ref(t.Args[0]))
	case OpZext:
		fmt.Fprintf(sb, "((_ zero_extend %d) %s)", t.Hi, e.ref(t.Args[0]))
	case OpSext:
		fmt.Fprintf(sb, "((_ sign_extend %d) %s)", t.Hi, e.ref(t.Args[0]))
	case OpApp:
		fmt.Fprintf(sb, "(%s", smtName(t.Name))
		for _, a := range t.Args {
			sb.WriteString(" " + e.ref(a))
		}
		sb.WriteString(")")
	default:
		fmt.Fprintf(sb, "(%s", opSMT[t.Op])
		for _, a := range t.Args {
			sb.WriteString(" " + e.ref(a))
		}
		sb.WriteString(")")
	}
}

func (e *Emitter) Ref(t *Term) string { return e.ref(t) }

// Eval evaluates t under a model (variable name -> value). Unknown variables
// and UF applications evaluate through the supplied callbacks.
func (b *TB) Eval(t *Term, model map[string]uint64, memo map[int]uint64) uint64 {
	if v, ok := memo[t.ID]; ok {
		return v
	}
	var r uint64
	arg := func(i int) uint64 { return b.Eval(t.Args[i], model, memo) }
	w := t.W
	switch t.Op {
	case OpConst:
		r = t.Val
	case OpVar:
		r = model[t.Name]
	case OpNot:
		r = 1 - arg(0)
	case OpAnd:
		r = arg(0) & arg(1)
	case OpOr:
		r = arg(0) | arg(1)
	case OpIte:
		if arg(0) != 0 {
			r = arg(1)
		} else {
			r = arg(2)
		}
	case OpEq:
		if arg(0) == arg(1) {
			r = 1
		}
	case OpApp:
		// model key: name(arg,arg,...)
		var ks []string
		for i := range t.Args {
			ks = append(ks, fmt.Sprintf("%d", arg(i)))
		}
		r = model[t.Name+"("+strings.Join(ks, ",")+")"]
	case OpExtract:
		r = (arg(0) >> uint(t.Lo)) & mask(w)
	case OpZext:
		r = arg(0)
	case OpSext:
		r = uint64(sext64(arg(0), t.Args[0].W)) & mask(w)
	case OpNeg:
		r = (-arg(0)) & mask(w)
	case OpBvNot:
		r = (^arg(0)) & mask(w)
	case OpUlt, OpUle, OpSlt, OpSle:
		c := b.cmp(t.Op, b.BV(t.Args[0].W, arg(0)), b.BV(t.Args[0].W, arg(1)))
		r = c.Val
	default:
		c := b.binArith(t.Op, b.BV(w, arg(0)), b.BV(w, arg(1)))
		r = c.Val
	}
	memo[t.ID] = r
	return r
}

var _ = bits.Len

func (b *TB) OpCounts() map[string]int {
	names := map[Op]string{OpConst: "const", OpVar: "var", OpNot: "not", OpAnd: "and", OpOr: "or", OpIte: "ite", OpEq: "eq", OpAdd: "add"}
	r := map[string]int{}
	for _, t := range b.tab {
		n := names[t.Op]
		if n == "" {
			n = fmt.Sprintf("op%d", t.Op)
		}
		if t.Op == OpIte && t.W == 0 {
			n = "itebool"
		}
		r[n]++
	}
	return r
}

// Apps lists the uninterpreted-function applications created so far.
func (b *TB) Apps() []*Term { return b.apps }

// Vars lists all variables created so far.
func (b *TB) Vars() []*Term { return b.vars }
