package engine

import (
	"encoding/json"
	"os"
	"path/filepath"
)

type Evidence struct {
	PropertyID  string                 `json:"property_id"`
	Tier        string                 `json:"tier"`
	Seed        int                    `json:"seed"`
	Level       string                 `json:"level"`
	Coverage    map[string]interface{} `json:"coverage"`
	Assumptions []string               `json:"assumptions"`
	WallS       float64                `json:"wall_s"`
	Violations  int                    `json:"violations"`
}

func WriteEvidence(dir string, ev *Evidence) error {
	if err := os.MkdirAll(dir, 0o755); err != nil {
		return err
	}
	b, err := json.MarshalIndent(ev, "", " ")
	if err != nil {
		return err
	}
	return os.WriteFile(filepath.Join(dir, ev.PropertyID+".json"), b, 0o644)
}

type Finding struct {
	Status      string `json:"status"` // known | fixed
	Property    string `json:"property"`
	Signature   string `json:"signature"`
	Description string `json:"description"`
	Commit      string `json:"commit,omitempty"`
}

type Findings struct {
	Findings []Finding `json:"findings"`
}

func LoadFindings(path string) *Findings {
	f := &Findings{}
	b, err := os.ReadFile(path)
	if err != nil {
		return f
	}
	json.Unmarshal(b, f)
	return f
}

// Known reports whether a violation signature is listed as a known finding.
func (f *Findings) Known(prop, sig string) *Finding {
	for i := range f.Findings {
		x := &f.Findings[i]
		if x.Status == "known" && x.Property == prop && x.Signature == sig {
			return x
		}
	}
	return nil
}
