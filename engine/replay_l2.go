package engine

// Replay of L2 counterexamples: the corpus is regenerated with the cff binary
// built from the current tree, the engine intrinsics and the user-function
// stubs are replaced by concrete Go implementing the solver's model, and the
// harness is run as an ordinary test against the real scheduler.

import (
	"crypto/sha1"
	"encoding/json"
	"fmt"
	"go/types"
	"os"
	"os/exec"
	"path/filepath"
	"regexp"
	"sort"
	"strings"

	"golang.org/x/tools/go/ssa"
)

var userFnsRe = regexp.MustCompile(`(?s)// BEGIN-USERFNS.*?// END-USERFNS`)

const l2Preamble = `
var verifModel = map[string]int64{%s}

type verifCall struct {
	name string
	args []int64
	seq  int
}

var (
	verifMu        sync.Mutex
	verifRef       bool
	verifLog       []verifCall
	verifSeqN      int
	verifFailed    []int
	verifErrs      = map[string]error{}
	verifPans      = map[string]any{}
	verifCtxCancel context.CancelFunc
)

type verifPanicTok struct{ name string }

func verifReset() {
	verifMu.Lock()
	defer verifMu.Unlock()
	verifRef, verifLog, verifSeqN, verifFailed = false, nil, 0, nil
	verifArgs = map[int][]int{}
}

func verifNdInt(site int) int   { return int(verifModel[fmt.Sprintf("nd_int_%%d", site)]) }
func verifNdBool(site int) bool { return verifModel[fmt.Sprintf("nd_bool_%%d", site)] != 0 }
func verifAssume(c bool) {
	if !c {
		panic("verif: assumption violated in replay")
	}
}
func verifAssert(c bool, id int) {
	if !c {
		verifMu.Lock()
		verifFailed = append(verifFailed, id)
		verifMu.Unlock()
	}
}
func verifCover(c bool, id int) {}
func verifNdCtx(cancelled bool) context.Context {
	ctx, cancel := context.WithCancel(context.Background())
	verifCtxCancel = cancel
	if cancelled {
		cancel()
	}
	return ctx
}
func verifCancel()                   { verifCtxCancel() }
func verifRefBegin()                 { verifMu.Lock(); verifRef = true; verifMu.Unlock() }
func verifRefEnd()                   { verifMu.Lock(); verifRef = false; verifMu.Unlock() }
func verifAllow(name string, m int)  {}
func verifCallCount(name string) int {
	verifMu.Lock()
	defer verifMu.Unlock()
	n := 0
	for _, c := range verifLog {
		if c.name == name {
			n++
		}
	}
	return n
}
func verifNthCall(name string, call int) *verifCall {
	n := 0
	for i := range verifLog {
		if verifLog[i].name == name {
			if n == call {
				return &verifLog[i]
			}
			n++
		}
	}
	return nil
}
func verifCallSeq(name string, call int) int {
	verifMu.Lock()
	defer verifMu.Unlock()
	if c := verifNthCall(name, call); c != nil {
		return c.seq
	}
	return 0
}
func verifCallArg(name string, call, cell int) int {
	verifMu.Lock()
	defer verifMu.Unlock()
	if c := verifNthCall(name, call); c != nil && cell < len(c.args) {
		return int(c.args[cell])
	}
	return 0
}
func verifErrOf(name string) error {
	verifMu.Lock()
	defer verifMu.Unlock()
	if e, ok := verifErrs[name]; ok {
		return e
	}
	e := errors.New("error returned by " + name)
	verifErrs[name] = e
	return e
}
func verifPanicValOf(name string) any {
	verifMu.Lock()
	defer verifMu.Unlock()
	if v, ok := verifPans[name]; ok {
		return v
	}
	v := &verifPanicTok{name}
	verifPans[name] = v
	return v
}
func verifSeq() int {
	verifMu.Lock()
	defer verifMu.Unlock()
	verifSeqN++
	return verifSeqN - 1
}
var verifArgs = map[int][]int{}

func verifArgLog(k int) {
	verifMu.Lock()
	verifArgs[k] = append(verifArgs[k], verifSeqN)
	verifSeqN++
	verifMu.Unlock()
}
func verifArgCount(k int) int { verifMu.Lock(); defer verifMu.Unlock(); return len(verifArgs[k]) }
func verifArgSeq(k int) int {
	verifMu.Lock()
	defer verifMu.Unlock()
	if s := verifArgs[k]; len(s) > 0 {
		return s[len(s)-1]
	}
	return -1
}
func verifSchedConcurrency() int { return int(verifModel["replay_sched_concurrency"]) }
func verifSchedEnqueues() int    { return int(verifModel["replay_sched_enqueues"]) }

func verifLogCall(name string, args ...int64) {
	verifMu.Lock()
	if !verifRef {
		verifLog = append(verifLog, verifCall{name, args, verifSeqN})
		verifSeqN++
	}
	ref := verifRef
	verifMu.Unlock()
	if !ref {
		// widen scheduling windows: a wrong dependency shows as a stale read
		time.Sleep(200 * time.Microsecond)
	}
}
func verifKey(prefix string, args []int64) string {
	if len(args) == 0 {
		return prefix
	}
	s := make([]string, len(args))
	for i, a := range args {
		s[i] = fmt.Sprint(a)
	}
	return prefix + "(" + strings.Join(s, ",") + ")"
}
func verifModelOut(name string, args ...int64) int64 { return verifModel[verifKey("out_"+name, args)] }
func verifModelRes(name string, j int, args ...int64) int64 {
	return verifModel[verifKey(fmt.Sprintf("f_%%s_%%d_0", name, j), args)]
}
func verifB2I(b bool) int64 {
	if b {
		return 1
	}
	return 0
}

var _ = strings.Join
var _ = time.Sleep
var _ sync.Mutex
`

// userFnBodies renders concrete bodies for the body-less user functions.
func userFnBodies(P *Program, pkgPath string) (string, error) {
	sp := P.SSA[pkgPath]
	if sp == nil {
		return "", fmt.Errorf("package %s not loaded", pkgPath)
	}
	var names []string
	for n, m := range sp.Members {
		if fn, ok := m.(*ssa.Function); ok && fn.Blocks == nil && !strings.HasPrefix(n, "verif") && n != "init" {
			names = append(names, n)
		}
	}
	sort.Strings(names)
	qual := func(p *types.Package) string {
		if p.Path() == pkgPath {
			return ""
		}
		return p.Name()
	}
	var sb strings.Builder
	for _, n := range names {
		fn := sp.Members[n].(*ssa.Function)
		sig := fn.Signature
		var params, flat, data []string
		for i := 0; i < sig.Params().Len(); i++ {
			T := sig.Params().At(i).Type()
			pn := fmt.Sprintf("p%d", i)
			params = append(params, pn+" "+types.TypeString(T, qual))
			if isContextType(T) {
				flat = append(flat, "0", "0")
				continue
			}
			var conv string
			switch u := T.Underlying().(type) {
			case *types.Basic:
				switch {
				case u.Info()&types.IsInteger != 0:
					conv = "int64(" + pn + ")"
				case u.Info()&types.IsBoolean != 0:
					conv = "verifB2I(" + pn + ")"
				}
			}
			if conv == "" {
				return "", fmt.Errorf("replay: parameter type %s of %s not supported", T, n)
			}
			flat = append(flat, conv)
			data = append(data, conv)
		}
		var results, okRet, errRet []string
		hasErr := false
		nres := sig.Results().Len()
		for j := 0; j < nres; j++ {
			T := sig.Results().At(j).Type()
			results = append(results, types.TypeString(T, qual))
			if isErrorType(T) && j == nres-1 {
				hasErr = true
				okRet = append(okRet, "nil")
				errRet = append(errRet, fmt.Sprintf("verifErrOf(%q)", n))
				continue
			}
			args := strings.Join(append([]string{fmt.Sprintf("%q", n), fmt.Sprint(j)}, data...), ", ")
			var ex string
			switch u := T.Underlying().(type) {
			case *types.Basic:
				switch {
				case u.Info()&types.IsInteger != 0:
					ex = fmt.Sprintf("%s(verifModelRes(%s))", types.TypeString(T, qual), args)
				case u.Info()&types.IsBoolean != 0:
					ex = fmt.Sprintf("verifModelRes(%s) != 0", args)
				}
			}
			if ex == "" {
				return "", fmt.Errorf("replay: result type %s of %s not supported", T, n)
			}
			okRet = append(okRet, ex)
			errRet = append(errRet, ex)
		}
		fmt.Fprintf(&sb, "func %s(%s) (%s) {\n", n, strings.Join(params, ", "), strings.Join(results, ", "))
		fmt.Fprintf(&sb, "\tverifLogCall(%s)\n", strings.Join(append([]string{fmt.Sprintf("%q", n)}, flat...), ", "))
		fmt.Fprintf(&sb, "\tswitch verifModelOut(%s) {\n\tcase 2:\n\t\tpanic(verifPanicValOf(%q))\n\tcase 3:\n\t\tpanic([]string{%q}) // a value of an uncomparable type\n", strings.Join(append([]string{fmt.Sprintf("%q", n)}, data...), ", "), n, n)
		if hasErr {
			fmt.Fprintf(&sb, "\tcase 1:\n\t\treturn %s\n", strings.Join(errRet, ", "))
		}
		fmt.Fprintf(&sb, "\t}\n\treturn %s\n}\n\n", strings.Join(okRet, ", "))
	}
	return sb.String(), nil
}

// WriteL2Replay writes the concrete API file and the test for a counterexample.
func WriteL2Replay(dir string, spec *KernelSpec, cex KernelCex, corpusPkg string) (string, error) {
	apiSrc, err := os.ReadFile(filepath.Join(spec.PkgDir, "api.go"))
	if err != nil {
		return "", err
	}
	bodies, err := userFnBodies(spec.Program, spec.PkgPath)
	if err != nil {
		return "", err
	}
	var ents []string
	var keys []string
	for k := range cex.Model {
		keys = append(keys, k)
	}
	sort.Strings(keys)
	for _, k := range keys {
		ents = append(ents, fmt.Sprintf("%q: %d", k, cex.Model[k]))
	}
	for s, v := range spec.Fixed {
		ents = append(ents, fmt.Sprintf("%q: %d", fmt.Sprintf("nd_int_%d", s), v))
	}
	pre := fmt.Sprintf(l2Preamble, strings.Join(ents, ", "))
	api := declsRe.ReplaceAllString(string(apiSrc), strings.Replace(pre, "$", "$$", -1))
	api = userFnsRe.ReplaceAllString(api, strings.Replace(bodies, "$", "$$", -1))
	// imports needed by the preamble
	api = strings.Replace(api, `import "context"`, "import (\n\t\"context\"\n\t\"errors\"\n\t\"fmt\"\n\t\"strings\"\n\t\"sync\"\n\t\"time\"\n)", 1)
	test := fmt.Sprintf(`package %s

import (
	"fmt"
	"runtime"
	"testing"
)

func TestVerifReplay(t *testing.T) {
	// the model's job order is one legal schedule of the real scheduler; the
	// replay cannot force it, so it alternates between all processors and a
	// single one (where workers start their jobs late)
	procs := runtime.GOMAXPROCS(0)
	defer runtime.GOMAXPROCS(procs)
	for attempt := 1; attempt <= 300; attempt++ {
		if attempt%%2 == 0 {
			runtime.GOMAXPROCS(1)
		} else {
			runtime.GOMAXPROCS(procs)
		}
		verifReset()
		%s()
		if len(verifFailed) > 0 {
			fmt.Printf("REPRODUCED property=%s attempts=%%d assertion(s) %%v failed on the real build: %s\n", attempt, verifFailed)
			return
		}
	}
	fmt.Printf("NOT-REPRODUCED property=%s\n")
	t.Fail()
}
`, filepath.Base(corpusPkg), spec.Entry, spec.Prop, strings.Replace(cex.Assertion, `"`, `'`, -1), spec.Prop)
	h := sha1.New()
	js, _ := json.Marshal(cex.Model)
	h.Write(js)
	h.Write([]byte(spec.Entry + spec.Name))
	id := fmt.Sprintf("%s-%x", spec.Prop, h.Sum(nil)[:6])
	rd := filepath.Join(dir, id)
	if err := os.MkdirAll(rd, 0o755); err != nil {
		return "", err
	}
	af := filepath.Join(rd, "api_concrete.go")
	tf := filepath.Join(rd, "replay_test.go")
	os.WriteFile(af, []byte(api), 0o644)
	os.WriteFile(tf, []byte(test), 0o644)
	rf := ReplayFile{Property: spec.Prop, Layer: "L2", Model: cex.Model, What: cex.Assertion, CorpusPkg: corpusPkg, GenMode: spec.GenMode, GenKeep: spec.GenKeep,
		Overlays: map[string]string{"api.go": af, "zz_verif_replay_test.go": tf},
		Cmd:      "vcheck replay " + filepath.Join(rd, "replay.json")}
	out, _ := json.MarshalIndent(rf, "", " ")
	path := filepath.Join(rd, "replay.json")
	return path, os.WriteFile(path, out, 0o644)
}

// runReplayL2 regenerates the corpus from the current tree and runs the test
// against the real scheduler.
func runReplayL2(rf *ReplayFile, corpusSrc string) (bool, string, error) {
	mode := rf.GenMode
	if mode == "" {
		mode = "base"
	}
	c, err := PrepareCorpusFiles(corpusSrc, []string{rf.CorpusPkg}, mode, false, rf.GenKeep)
	defer c.Cleanup()
	if err != nil {
		return false, "", err
	}
	pkgDir := filepath.Join(c.ModDir, rf.CorpusPkg)
	for name, src := range rf.Overlays {
		b, err := os.ReadFile(src)
		if err != nil {
			return false, "", err
		}
		if err := os.WriteFile(filepath.Join(pkgDir, name), b, 0o644); err != nil {
			return false, "", err
		}
	}
	targs := []string{"test", "-v", "-vet=off", "-count=1", "-run", "TestVerifReplay$", "-timeout", "300s"}
	if rf.Property == "C12" {
		targs = append(targs, "-race")
	}
	cmd := exec.Command("go", append(targs, ".")...)
	cmd.Dir = pkgDir
	cmd.Env = goEnv()
	out, _ := cmd.CombinedOutput()
	s := string(out)
	ok := strings.Contains(s, "REPRODUCED property=") && !strings.Contains(s, "NOT-REPRODUCED")
	if rf.Property == "C12" {
		return strings.Contains(s, "WARNING: DATA RACE"), s, nil
	}
	if !ok && strings.Contains(s, "panic: ") && !strings.Contains(s, "assumption violated") {
		// the test binary died with a Go panic: for panic-containment
		// obligations this is the observation itself
		ok = strings.Contains(rf.What, "panic") || strings.Contains(rf.What, "fault") || strings.Contains(rf.What, "crash")
	}
	return ok, s, nil
}

// WriteBuildReplay records a "generated code does not compile" counterexample.
func WriteBuildReplay(dir, prop, corpusPkg, what string) (string, error) {
	h := sha1.New()
	h.Write([]byte(prop + corpusPkg + what))
	id := fmt.Sprintf("%s-build-%x", prop, h.Sum(nil)[:6])
	rd := filepath.Join(dir, id)
	if err := os.MkdirAll(rd, 0o755); err != nil {
		return "", err
	}
	rf := ReplayFile{Property: prop, Layer: "L2-build", CorpusPkg: corpusPkg, What: what,
		Cmd: "vcheck replay " + filepath.Join(rd, "replay.json") + "   # builds cff from /repo, runs it on /verif/corpus/" + corpusPkg + " and type-checks the output with go vet"}
	out, _ := json.MarshalIndent(rf, "", " ")
	path := filepath.Join(rd, "replay.json")
	return path, os.WriteFile(path, out, 0o644)
}

func runReplayBuild(rf *ReplayFile, corpusSrc string) (bool, string, error) {
	c, err := PrepareCorpus(corpusSrc, []string{rf.CorpusPkg}, "base", false)
	defer c.Cleanup()
	if err != nil {
		return false, "", err
	}
	cmd := exec.Command("go", "vet", "./"+rf.CorpusPkg)
	cmd.Dir = c.ModDir
	cmd.Env = goEnv()
	out, verr := cmd.CombinedOutput()
	s := c.GenLog + string(out)
	if verr != nil && strings.Contains(string(out), "_gen.go") {
		return true, "REPRODUCED property=" + rf.Property + ": cff exited 0 but its output does not type-check\n" + s, nil
	}
	return false, "NOT-REPRODUCED property=" + rf.Property + "\n" + s, nil
}
