package engine

// Liveness of SSA registers: dead registers are dropped when a process parks
// or waits at a join, so state merging does not build ite terms for them.

import (
	"golang.org/x/tools/go/ssa"
)

type liveInfo struct {
	in, out [][]bool // per block
	cache   map[[3]int][]bool
}

func (e *Engine) liveness(fn *ssa.Function) *liveInfo {
	fi := e.info(fn)
	if fi.live != nil {
		return fi.live
	}
	n := fi.n
	nb := len(fn.Blocks)
	li := &liveInfo{in: make([][]bool, nb), out: make([][]bool, nb), cache: map[[3]int][]bool{}}
	for i := range li.in {
		li.in[i] = make([]bool, n)
		li.out[i] = make([]bool, n)
	}
	idx := func(v ssa.Value) int {
		if i, ok := fi.idx[v]; ok {
			return i
		}
		return -1
	}
	changed := true
	for changed {
		changed = false
		for bi := nb - 1; bi >= 0; bi-- {
			b := fn.Blocks[bi]
			out := li.out[bi]
			for _, s := range b.Succs {
				for k, v := range li.in[s.Index] {
					if v && !out[k] {
						out[k] = true
						changed = true
					}
				}
				// phi operands along this edge
				pi := -1
				for i, pr := range s.Preds {
					if pr == b {
						pi = i
					}
				}
				for _, in := range s.Instrs {
					ph, ok := in.(*ssa.Phi)
					if !ok {
						break
					}
					if k := idx(ph.Edges[pi]); k >= 0 && !out[k] {
						out[k] = true
						changed = true
					}
				}
			}
			cur := append([]bool(nil), out...)
			e.scanBack(fn, fi, b, 0, cur)
			for k, v := range cur {
				if v && !li.in[bi][k] {
					li.in[bi][k] = true
					changed = true
				}
			}
		}
	}
	fi.live = li
	return li
}

// scanBack updates cur (live-out of the block) to the live set just before
// instruction `from`.
func (e *Engine) scanBack(fn *ssa.Function, fi *fnInfo, b *ssa.BasicBlock, from int, cur []bool) {
	var ops []*ssa.Value
	for i := len(b.Instrs) - 1; i >= from; i-- {
		in := b.Instrs[i]
		if v, ok := in.(ssa.Value); ok {
			if k, ok := fi.idx[v]; ok {
				cur[k] = false
			}
		}
		if _, isPhi := in.(*ssa.Phi); isPhi {
			continue // operands belong to predecessor edges
		}
		ops = in.Operands(ops[:0])
		for _, op := range ops {
			if *op == nil {
				continue
			}
			if k, ok := fi.idx[*op]; ok {
				cur[k] = true
			}
		}
	}
}

// liveAt returns the registers live just before (block, pc) if !after, or
// just after the instruction at pc if after.
func (e *Engine) liveAt(fn *ssa.Function, b *ssa.BasicBlock, pc int, after bool) []bool {
	li := e.liveness(fn)
	a := 0
	if after {
		a = 1
	}
	key := [3]int{b.Index, pc, a}
	if r, ok := li.cache[key]; ok {
		return r
	}
	cur := append([]bool(nil), li.out[b.Index]...)
	e.scanBack(fn, e.info(fn), b, pc+a, cur)
	li.cache[key] = cur
	return cur
}

// pruneDead drops dead registers of every frame of a context about to park.
func (e *Engine) pruneDead(c *Ctx) {
	if e.NoLiveness {
		return
	}
	for i, f := range c.Frames {
		if f.PC < 0 {
			continue
		}
		top := i == len(c.Frames)-1
		live := e.liveAt(f.Fn, f.Block, f.PC, !top)
		for k := range f.Regs {
			if !live[k] {
				f.Regs[k] = nil
			}
		}
	}
}
