package engine

// Happens-before discipline of generated plumbing (C12, L2 part). Generated
// code is executed sequentially under the contract scheduler; this monitor
// checks that the *only* ordering it relies on is the one the contract
// provides: a cell written by a job may be read (non-atomically) only by the
// same job, by a job that transitively depends on the writer, or by the
// caller after Wait returned nil. After an early (error) return the caller
// may touch job-written cells only through sync/atomic, because jobs that
// were already dispatched may still be running.

import "fmt"

type Plumb struct {
	e      *Engine
	actor  int // BV8: 1 caller, 2+idx job
	reach  int // BV64: ancestors (incl. self) of the running job
	phase  int // BV8: 0 before Wait, 2 after a return that implies all jobs are done, 3 after an early (fail-fast error) return
	failR  int // BV64: jobs known to have finished at an early return (the failing job and its ancestors)
	atomic bool
	cells  map[int][2]int // addr -> (writer actor cell, atomic-only flag cell)
}

func NewPlumb(e *Engine) *Plumb {
	p := &Plumb{e: e, cells: map[int][2]int{}}
	p.actor = e.newObj([]int{8}, ObjPlain, "plumb.actor").Base
	p.reach = e.newObj([]int{64}, ObjPlain, "plumb.reach").Base
	p.phase = e.newObj([]int{8}, ObjPlain, "plumb.phase").Base
	p.failR = e.newObj([]int{64}, ObjPlain, "plumb.failReach").Base
	return p
}

func (pl *Plumb) mon(addr int) [2]int {
	if c, ok := pl.cells[addr]; ok {
		return c
	}
	e := pl.e
	c := [2]int{e.newObj([]int{8}, ObjPlain, fmt.Sprintf("pw@%d", addr)).Base, e.newObj([]int{0}, ObjPlain, fmt.Sprintf("pa@%d", addr)).Base}
	pl.cells[addr] = c
	return c
}

func (pl *Plumb) curActor(p *Path) *Term {
	B := pl.e.B
	a := p.Load(pl.e, pl.actor)
	return B.Ite(B.Eq(a, B.BV(8, 0)), B.BV(8, 1), a)
}

// ordered: the last write to the cell is ordered before the current actor.
func (pl *Plumb) ordered(p *Path, c [2]int) *Term {
	e, B := pl.e, pl.e.B
	w := p.Load(e, c[0])
	a := pl.curActor(p)
	ph := p.Load(e, pl.phase)
	reach := p.Load(e, pl.reach)
	isCaller := B.Eq(a, B.BV(8, 1))
	ok := B.Or(B.Eq(w, B.BV(8, 0)), B.Eq(w, a))
	// a job reads what the caller wrote before Wait, or what an ancestor job wrote
	wIsCaller := B.Eq(w, B.BV(8, 1))
	ok = B.Or(ok, B.And(B.Not(isCaller), wIsCaller))
	// writer is job k (w = 2+k): ancestor of the running job?
	anc := B.False
	fin := B.False
	failR := p.Load(e, pl.failR)
	if lv, isTree := B.Leaves(w); isTree {
		for _, v := range lv {
			if v < 2 {
				continue
			}
			k := v - 2
			isK := B.Eq(w, B.BV(8, v))
			bit := B.Not(B.Eq(B.BvAnd(reach, B.BV(64, uint64(1)<<k)), B.BV(64, 0)))
			anc = B.Or(anc, B.And(isK, bit))
			fbit := B.Not(B.Eq(B.BvAnd(failR, B.BV(64, uint64(1)<<k)), B.BV(64, 0)))
			fin = B.Or(fin, B.And(isK, fbit))
		}
	}
	ok = B.Or(ok, B.And(B.Not(isCaller), anc))
	// the caller reads job-written cells after a return that implies every job
	// is done; after an early return only those of the job whose failure is
	// being returned (and its ancestors)
	ok = B.Or(ok, B.And(isCaller, B.Eq(ph, B.BV(8, 2))))
	ok = B.Or(ok, B.And(isCaller, B.Eq(ph, B.BV(8, 3)), fin))
	return ok
}

func (pl *Plumb) access(p *Path, addr int, cond *Term, write bool) {
	e, B := pl.e, pl.e.B
	o := e.ObjAt(uint64(addr))
	if o == nil || !o.Tracked {
		return
	}
	c := pl.mon(addr)
	if pl.atomic {
		// atomic accesses synchronise; remember that the cell is shared this way
		p.Store(e, c[1], B.Or(p.Load(e, c[1]), cond))
		if write {
			p.Store(e, c[0], B.Ite(cond, pl.curActor(p), p.Load(e, c[0])))
		}
		return
	}
	bad := B.And(cond, B.Not(pl.ordered(p, c)))
	if !bad.IsFalse() {
		e.RaiseFlag(p, "C12gen", bad)
		what := "read"
		if write {
			what = "write"
		}
		fn := "?"
		if p.Cur != nil && len(p.Cur.Frames) > 0 {
			fn = p.Cur.top().Fn.String()
		}
		e.RaceSites[fmt.Sprintf("%s of %s+%d in %s", what, o.Label, addr-o.Base, fn)] = true
	}
	if write {
		p.Store(e, c[0], B.Ite(cond, pl.curActor(p), p.Load(e, c[0])))
	}
}

func (pl *Plumb) Read(p *Path, addr int, cond *Term)  { pl.access(p, addr, cond, false) }
func (pl *Plumb) Write(p *Path, addr int, cond *Term) { pl.access(p, addr, cond, true) }
