package engine

// Cube enumeration and the per-property L1 runner.

import (
	"fmt"
	"os"
	"runtime"
	"sort"
	"strings"
	"sync"
	"time"
)

// dagShapes enumerates dependency sequences for J jobs, at most D deps per
// job (ordered, duplicates allowed). If dedupe, sequences that are equal as
// multisets are listed once.
func dagShapes(J, D int, dedupe bool) [][][]int {
	var perJob func(k int) [][]int
	perJob = func(k int) [][]int {
		res := [][]int{{}}
		var rec func(cur []int)
		rec = func(cur []int) {
			if len(cur) == D {
				return
			}
			for x := 0; x < k; x++ {
				if dedupe && len(cur) > 0 && x < cur[len(cur)-1] {
					continue
				}
				nxt := append(append([]int(nil), cur...), x)
				res = append(res, nxt)
				rec(nxt)
			}
		}
		rec(nil)
		return res
	}
	shapes := [][][]int{{}}
	for k := 0; k < J; k++ {
		var next [][][]int
		for _, s := range shapes {
			for _, d := range perJob(k) {
				ns := append(append([][]int(nil), s...), d)
				next = append(next, ns)
			}
		}
		shapes = next
	}
	return shapes
}

type Family struct {
	Name     string
	Outcomes []int
	PerJob   [][]int
	Hunt     string
	Split    bool // one cube per outcome vector (case split across cores)
	JobCtx   bool
	SameErr  bool
	MaxGoex  int
	PreCanc  bool
	Timer    bool
	Emitter  bool
	Ticks    int
}

var (
	FamPlain      = Family{Name: "plain", Outcomes: []int{OutOK, OutErr}}
	FamGoexit     = Family{Name: "goexit", Outcomes: []int{OutOK, OutErr, OutGoexit}, MaxGoex: 1}
	FamPre        = Family{Name: "precancel", Outcomes: []int{OutOK, OutErr}, PreCanc: true}
	FamJobCancel  = Family{Name: "jobcancel", Outcomes: []int{OutOK, OutCancel}}
	FamTimer      = Family{Name: "timer", Outcomes: []int{OutOK}, Timer: true}
	FamCancel     = Family{Name: "cancel", Outcomes: []int{OutOK, OutErr, OutCancel}, PreCanc: true, Timer: true}
	FamHang       = Family{Name: "hang", Outcomes: []int{OutOK, OutHang}, Timer: true}
	FamErrCtx     = Family{Name: "errctx", Outcomes: []int{OutOK, OutErr, OutErrCanceled}}
	FamEmit       = Family{Name: "emit", Outcomes: []int{OutOK, OutErr}, Emitter: true, Ticks: 1}
	FamJobCtx     = Family{Name: "jobctx", Outcomes: []int{OutOK, OutErr}, JobCtx: true}
	FamJobCtxExit = Family{Name: "jobctx-goexit", Outcomes: []int{OutOK, OutCancelGoexit}, JobCtx: true, MaxGoex: 1}
	FamSameErr    = Family{Name: "same-error", Outcomes: []int{OutOK, OutErr}, SameErr: true}
	FamEmit2      = Family{Name: "emit2", Outcomes: []int{OutOK, OutErr}, Emitter: true, Ticks: 2}
)

func mkCubes(prefix string, shapes [][][]int, Ns []int, modes []bool, fams []Family) []*Cube {
	var out []*Cube
	for _, sh := range shapes {
		for _, n := range Ns {
			for _, m := range modes {
				for _, f := range fams {
					c := &Cube{Deps: sh, N: n, Continue: m, Outcomes: f.Outcomes, PerJob: f.PerJob, Hunt: f.Hunt, JobCtx: f.JobCtx, SameErr: f.SameErr, MaxGoex: f.MaxGoex, PreCanc: f.PreCanc, Timer: f.Timer, Emitter: f.Emitter, Ticks: f.Ticks}
					if !f.Split {
						out = append(out, c)
						continue
					}
					// case split: one cube per outcome vector
					vecs := [][]int{{}}
					for j := range sh {
						set := f.Outcomes
						if f.PerJob != nil {
							set = f.PerJob[j]
						}
						var nv [][]int
						for _, v := range vecs {
							for _, o := range set {
								nv = append(nv, append(append([]int(nil), v...), o))
							}
						}
						vecs = nv
					}
					for _, v := range vecs {
						cc := *c
						cc.PerJob = nil
						for _, o := range v {
							cc.PerJob = append(cc.PerJob, []int{o})
						}
						out = append(out, &cc)
					}
				}
			}
		}
	}
	for i, c := range out {
		c.ID = fmt.Sprintf("%s%d", prefix, i)
	}
	return out
}

func shapesUpTo(J, D int, dedupe bool) [][][]int {
	var all [][][]int
	for j := 1; j <= J; j++ {
		all = append(all, dagShapes(j, D, dedupe)...)
	}
	return all
}

// L1Plan: which cubes serve a property in a tier. Quick tiers are sized to a
// few minutes on 16 cores (measured); thorough tiers add J=3 and the heavier
// environment families.
func L1Plan(prop, tier string) []*Cube {
	both := []bool{false, true}
	ff := []bool{false}
	coe := []bool{true}
	q := tier != "thorough"
	var cubes []*Cube
	small := shapesUpTo(2, 2, true) // J=1; J=2: independent, chain, duplicate dependency
	chain2 := [][][]int{{{}, {0}}}
	chain3 := [][][]int{{{}, {0}, {1}}}
	failSkipThen := [][][]int{{{}, {0}, {}}} // A; B after A; C independent (enqueued last)
	indepThenDep := [][][]int{{{}, {}, {0}}} // A; C independent; B after A (queued behind C)
	fanOut3 := [][][]int{{{}, {0}, {0}}}     // A; B and C after A
	join3 := [][][]int{{{}, {}, {0, 1}}}     // A; B; C after A and B
	j1 := [][][]int{{{}}}
	N12 := []int{1, 2}
	N1 := []int{1}
	add := func(prefix string, shapes [][][]int, ns []int, modes []bool, fams ...Family) {
		cubes = append(cubes, mkCubes(prop+prefix, shapes, ns, modes, fams)...)
	}
	// J=3 shapes explored in the thorough tier: independent, skip-then-independent,
	// independent-then-dependent, fan-out, chain, join
	j3 := [][][]int{{{}, {}, {}}, {{}, {0}, {}}, {{}, {}, {0}}, {{}, {0}, {0}}, {{}, {0}, {1}}, {{}, {}, {0, 1}}}
	j3wide := [][][]int{{{}, {}, {}}, {{}, {}, {0, 1}}}
	N2 := []int{2}
	_ = j3wide
	_ = N2
	switch prop {
	case "C01":
		add("a", small, N12, both, FamPlain)
		add("g", append(j1, chain2...), N12, both, FamGoexit)
		// transitive chain with a failing head: late enqueue behind an invalidated job
		add("c", chain3, N1, both, Family{Name: "chainfail", Outcomes: []int{OutOK, OutErr}, PerJob: [][]int{{OutErr}, {OutOK}, {OutOK, OutErr}}, Hunt: "job started twice or before"})
		// fan-in: one dependency fails, the other succeeds afterwards
		add("k", join3, N1, coe, Family{Name: "joinfail", Outcomes: []int{OutOK, OutErr}, PerJob: [][]int{{OutErr}, {OutOK}, {OutOK}}, Hunt: "job started twice or before"})
		if !q {
			add("b", j3, N1, both, FamPlain)
			add("d", j3wide, N2, both, FamPlain)
			add("h", small, N12, both, FamGoexit)
		}
	case "C03":
		add("a", small, N12, both, FamPlain)
		// capacity must survive a skipped job: A fails, B (after A) is skipped, C must still be dispatched
		add("c", failSkipThen, N1, coe, Family{Name: "failskip", Outcomes: []int{OutOK, OutErr}, PerJob: [][]int{{OutErr}, {OutOK}, {OutOK}}, Hunt: "capacity lost"})
		add("g", append(j1, chain2...), N12, ff, FamGoexit)
		// a job cancels the context it was enqueued with and exits its goroutine: the worker must still be replaced
		add("x", [][][]int{{{}, {}}, {{}, {0}}}, N1, both, FamJobCtxExit)
		if !q {
			add("b", j3, []int{2}, both, FamPlain)
			add("h", small, N12, both, FamGoexit)
			add("c", [][][]int{{{}, {}, {}}}, []int{2}, ff, Family{Name: "goexit2", Outcomes: []int{OutOK, OutGoexit}, MaxGoex: 2})
		}
	case "C04":
		add("a", small, N12, both, FamPlain)
		if !q {
			add("b", j3, N1, both, FamPlain)
			add("h", small, N12, both, FamGoexit)
		}
	case "C05":
		add("a", small, N12, both, FamPlain)
		add("c", append(chain3, failSkipThen...), N1, coe, Family{Name: "headfails", Outcomes: []int{OutOK, OutErr}, PerJob: [][]int{{OutErr}, {OutOK}, {OutOK}}, Hunt: "deadlock"})
		add("g", append(j1, chain2...), N12, ff, FamGoexit)
		add("p", append(j1, chain2...), N1, both, FamPre, FamJobCancel)
		add("j", append(j1, chain2...), N1, both, FamJobCtx) // jobs enqueued with their own (possibly cancelled) context, Wait with a live one
		add("e", j1, N1, ff, FamEmit)
		if !q {
			add("b", j3, N1, both, FamPlain)
			add("d", j3wide, N2, both, FamPlain)
			add("h", small, N12, both, FamGoexit, FamPre, FamJobCancel, FamTimer)
			add("f", small, N12, both, FamEmit)
		}
	case "C06":
		add("a", small, N12, both, FamPlain)
		add("g", append(j1, chain2...), N12, ff, FamGoexit)
		add("p", append(j1, chain2...), N1, both, FamPre, FamJobCancel)
		add("j", append(j1, chain2...), N1, both, FamJobCtx)
		add("e", j1, N1, ff, FamEmit)
		if !q {
			add("t", [][][]int{{{}, {}, {}, {}}}, []int{2}, ff, FamPlain)
			add("b", j3, N1, both, FamPlain)
			add("d", j3wide, N2, both, FamPlain)
			add("h", small, N12, both, FamGoexit, FamPre, FamJobCancel, FamTimer)
		}
	case "C07":
		add("a", small, N12, ff, FamPlain)
		add("c", chain3, N1, ff, Family{Name: "chainmid", Outcomes: []int{OutOK, OutErr}, PerJob: [][]int{{OutOK}, {OutOK, OutErr}, {OutOK}}, Hunt: "nil result although a job did not"})
		add("g", append(j1, chain2...), N12, ff, FamGoexit)
		add("p", append(j1, chain2...), N1, ff, FamPre, FamJobCancel)
		add("x", append(j1, chain2...), N1, ff, FamErrCtx) // a task's own error is a context error while the directive's context is live
		if !q {
			add("b", j3, N1, ff, FamPlain)
			add("d", j3wide, N2, ff, FamPlain)
			add("h", small, N12, ff, FamGoexit, FamPre, FamJobCancel, FamTimer)
		}
	case "C08":
		add("a", small, N12, coe, FamPlain)
		add("c", chain3, N1, coe, Family{Name: "chainfail", Outcomes: []int{OutOK, OutErr}, PerJob: [][]int{{OutErr}, {OutOK}, {OutOK, OutErr}}, Hunt: "job ran iff"})
		add("g", append(j1, chain2...), N12, coe, FamGoexit)
		add("s", [][][]int{{{}, {}}}, N12, coe, FamSameErr) // several jobs fail with one shared error value
		// fan-in: one dependency fails, the other succeeds afterwards
		add("k", join3, N1, coe, Family{Name: "joinfail", Outcomes: []int{OutOK, OutErr}, PerJob: [][]int{{OutErr}, {OutOK}, {OutOK}}, Hunt: "job ran iff"})
		add("p", append(j1, chain2...), N1, coe, FamPre, FamJobCancel)
		if !q {
			add("b", j3, N1, coe, FamPlain)
			add("d", j3wide, N2, coe, FamPlain)
			add("h", small, N12, coe, FamGoexit, FamPre, FamJobCancel, FamTimer)
		}
	case "C09":
		add("p", small, N1, both, FamPre, FamJobCancel)
		// a dependent becomes ready, waits for the only worker, and the context is cancelled by the job occupying it
		add("c", indepThenDep, N1, ff, Family{Name: "jobcancel-mid", Outcomes: []int{OutOK, OutCancel}, PerJob: [][]int{{OutOK}, {OutCancel}, {OutOK}}, Hunt: "context was done"})
		add("j", append(j1, chain2...), N1, both, FamJobCtx) // per-job context: done -> the body never starts; live -> the body receives exactly that context
		// more dependency-free jobs than the scheduler can hold (worker + ready list + enqueue buffer)
		// while the only worker hangs: the caller must not get stuck in Enqueue once the context is done
		add("w", [][][]int{{{}, {}, {}, {}}}, N1, ff, Family{Name: "hang-fanout", Outcomes: []int{OutOK, OutHang}, PerJob: [][]int{{OutHang}, {OutOK}, {OutOK}, {OutOK}}, Timer: true, Hunt: "caller stuck although context is done"})
		add("t", j1, N1, both, FamTimer, FamHang) // timer/hang at J=2 take 8-27 min per cube: thorough only
		if !q {
			add("q", small, []int{2}, both, FamPre, FamJobCancel, FamTimer, FamHang)
			add("u", chain2, N1, both, FamTimer, FamHang)
			add("b", j3, N1, both, FamJobCancel)
		}
	case "C12":
		indep2 := [][][]int{{{}, {}}}
		var rest [][][]int
		for _, sh := range small {
			if !(len(sh) == 2 && len(sh[1]) == 0) {
				rest = append(rest, sh)
			}
		}
		add("a", rest, N12, both, FamPlain)
		add("i", indep2, N1, both, FamPlain)
		// two workers truly in parallel: the slowest cube (20 min), split by outcome vector
		split := FamPlain
		split.Split = true
		add("s", indep2, N2, both, split)
		add("g", append(j1, chain2...), N12, ff, FamGoexit)
		add("p", chain2, N1, both, FamJobCancel)
		if !q {
			add("b", j3, N1, both, FamPlain)
			add("d", j3wide, N2, both, FamPlain)
		}
		for _, c := range cubes {
			c.Race = true
		}
	case "C19":
		add("a", small, N1, both, FamEmit)
		add("n", j1, []int{2}, ff, FamEmit)
		// invalidated jobs at the front of the ready list (full unsat proof > 20 min: bug-hunting in quick)
		add("f", fanOut3, N1, coe, Family{Name: "emit-headfails", Outcomes: []int{OutOK, OutErr}, PerJob: [][]int{{OutErr}, {OutOK}, {OutOK}}, Emitter: true, Ticks: 1, Hunt: "inconsistent state report"})
		if !q {
			add("b", small, N12, both, FamEmit2)
			add("c", dagShapes(3, 1, true), N1, ff, FamEmit)
		}
	}
	if !q {
		// cubes that are not in the quick plan lie beyond the registered bound
		inQuick := map[string]bool{}
		for _, c := range L1Plan(prop, "quick") {
			inQuick[c.String()] = true
		}
		for _, c := range cubes {
			if !inQuick[c.String()] || c.Hunt != "" {
				c.Extra = true
			}
		}
	}
	// cube ids must be valid Go identifiers
	for _, c := range cubes {
		c.ID = strings.Replace(c.ID, "-", "_", -1)
	}
	return cubes
}

// L1PropFilter: obligations relevant for a property (internal ones always).
func l1Relevant(prop string, ob Obligation) bool {
	if ob.Internal && ob.WantSat {
		return ob.Prop == "C01" || ob.Prop == prop
	}
	if ob.Prop == "bound" || ob.Prop == "fault" {
		return true
	}
	if prop == "C03" && ob.Prop == "C05" {
		// capacity that is lost entirely shows as a runnable job never dispatched
		return true
	}
	return ob.Prop == prop
}

type ObResult struct {
	Prop    string  `json:"prop"`
	Name    string  `json:"name"`
	Verdict string  `json:"verdict"`
	WantSat bool    `json:"want_sat"`
	Seconds float64 `json:"seconds"`
	Via     string  `json:"via,omitempty"`
}

type CubeResult struct {
	Cube        string      `json:"cube"`
	ID          string      `json:"id"`
	Steps       int         `json:"steps"`
	Terms       int         `json:"terms"`
	Procs       int         `json:"processes"`
	Paths       int         `json:"paths"`
	Instr       int         `json:"ssa_instructions_executed"`
	BuildS      float64     `json:"build_seconds"`
	SolveS      float64     `json:"solve_seconds"`
	Queries     int         `json:"queries"`
	Obs         []ObResult  `json:"obligations"`
	Witness     []SchedStep `json:"witness_schedule,omitempty"`
	Error       string      `json:"error,omitempty"`
	Violations  []Violation `json:"violations,omitempty"`
	Vacuous     bool        `json:"vacuous,omitempty"`
	Inconcl     bool        `json:"inconclusive,omitempty"`
	FaultKinds  []string    `json:"fault_kinds_checked,omitempty"`
	NonTrivial  bool        `json:"nontrivial"`
	Encoded     []string    `json:"-"`
	Notes       []string    `json:"notes,omitempty"`
	Discharged  int         `json:"discharged"`
	Obligations int         `json:"n_obligations"`
	Hunt        string      `json:"bug_hunting_only,omitempty"`
	Beyond      string      `json:"undecided_cube_outside_the_claim,omitempty"`
	Undecided   int         `json:"undecided_within_budget,omitempty"`
}

type Violation struct {
	Prop            string            `json:"prop"`
	Name            string            `json:"name"`
	Cube            *Cube             `json:"cube"`
	Schedule        []SchedStep       `json:"schedule"`
	Outcomes        []int             `json:"outcomes"`
	PreCanc         bool              `json:"pre_cancel"`
	Timer           bool              `json:"timer_armed"`
	JobCtxCancelled bool              `json:"job_context_cancelled,omitempty"`
	Sig             string            `json:"signature"`
	Oracle          string            `json:"oracle,omitempty"` // property whose replay oracle observes this violation
	Extra           map[string]string `json:"extra,omitempty"`
}

// quick-tier detection: the quick tier uses a 600 s solver limit
func tierOf(timeoutMs int) string {
	if timeoutMs <= 600000 {
		return "quick"
	}
	return "thorough"
}

func q(tier string) bool { return tier == "quick" }

// RunL1Cube builds and decides one cube for one property.
func RunL1Cube(P *Program, c *Cube, prop string, solver string, timeoutMs int) (res *CubeResult) {
	res = &CubeResult{Cube: c.String(), ID: c.ID}
	defer func() {
		if c.Extra && res.Inconcl && len(res.Violations) == 0 && !res.Vacuous {
			res.Inconcl = false
			res.Beyond = "not decided within the time limit (" + res.Error + "); this cube lies beyond the registered bound and is not part of the claim"
			res.Error = ""
		}
	}()
	defer func() {
		if r := recover(); r != nil {
			if ee, ok := r.(EngineError); ok {
				res.Error = ee.Msg
				res.Inconcl = true
				return
			}
			panic(r)
		}
	}()
	if c.Extra && timeoutMs > 1500000 {
		timeoutMs = 1500000
	}
	t0 := time.Now()
	l := NewL1(P, c)
	l.Build()
	res.BuildS = time.Since(t0).Seconds()
	res.Steps = l.S.T
	res.Terms = l.E.B.NumTerms()
	res.Procs = len(l.S.Procs)
	res.Paths = l.S.TotalPaths
	res.Instr = l.S.TotalInstr
	res.Notes = l.E.Notes
	if os.Getenv("VERIF_VERBOSE") != "" {
		fmt.Fprintf(os.Stderr, "    op counts %v\n", l.E.B.OpCounts())
	}
	for k := range l.E.Encoded {
		res.Encoded = append(res.Encoded, k)
	}
	for k := range l.E.FaultKinds {
		res.FaultKinds = append(res.FaultKinds, k)
	}
	sort.Strings(res.FaultKinds)
	sv, err := NewSolver(l.E.B, solver, timeoutMs)
	if err != nil {
		res.Error = err.Error()
		res.Inconcl = true
		return
	}
	defer sv.Close()
	var obs []Obligation
	for _, ob := range l.Obligations() {
		if f := os.Getenv("VERIF_ONLYOB"); f != "" && !ob.WantSat && !strings.Contains(ob.Name, f) {
			continue
		}
		if l1Relevant(prop, ob) {
			if prop == "C03" && ob.Prop == "C05" {
				ob.Oracle = "C05"
				ob.Prop = "C03"
				ob.Name = "capacity lost: a runnable job is never dispatched although no job is executing (" + ob.Name + ")"
			}
			obs = append(obs, ob)
		}
	}
	B := l.E.B
	base := l.S.Constraints
	if c.Hunt != "" && q(tierOf(timeoutMs)) {
		res.Hunt = "only the obligation matching '" + c.Hunt + "' is asked, 300 s budget; the full proof of this cube is in the thorough tier"
		hs, err := NewSolver(l.E.B, solver, 300000)
		if err != nil {
			res.Error = err.Error()
			res.Inconcl = true
			return
		}
		defer hs.Close()
		for _, ob := range obs {
			if ob.WantSat || !strings.Contains(ob.Name, c.Hunt) {
				continue
			}
			res.Obligations++
			t1 := time.Now()
			v, m, err := hs.Check(append([]*Term{ob.Assert}, base...), l.ModelTerms())
			res.SolveS += time.Since(t1).Seconds()
			res.Queries++
			if err != nil {
				v = Unknown
			}
			or := ObResult{Prop: ob.Prop, Name: ob.Name, Verdict: v.String(), Seconds: time.Since(t1).Seconds(), Via: "bug-hunting query"}
			switch v {
			case Unsat:
				res.Discharged++
			case Unknown:
				or.Verdict = "undecided within 300 s (not part of the claim)"
				res.Undecided++
			case Sat:
				ev := func(t *Term) uint64 { return m[t.ID] }
				viol := Violation{Prop: ob.Prop, Name: ob.Name, Cube: c, Schedule: l.Decode(ev), Oracle: ob.Oracle}
				for _, o := range l.Out {
					viol.Outcomes = append(viol.Outcomes, int(m[o.ID]))
				}
				viol.Sig = l.Signature(ob, viol)
				res.Violations = append(res.Violations, viol)
			}
			res.Obs = append(res.Obs, or)
		}
		res.NonTrivial = true
		return
	}
	check := func(t *Term, want []*Term) (Verdict, map[int]uint64) {
		if c.Extra && res.SolveS > 2700 {
			// cubes beyond the registered bound get 45 min of solver time in total
			res.Error = "solver budget of the cube (45 min) exhausted"
			return Unknown, nil
		}
		t1 := time.Now()
		v, m, err := sv.Check(append([]*Term{t}, base...), want)
		res.SolveS += time.Since(t1).Seconds()
		res.Queries++
		if err != nil {
			res.Error = err.Error()
			return Unknown, nil
		}
		return v, m
	}
	// 1. all unsat-expected obligations at once; on sat the model tells which
	// obligation it violates, and the rest is asked again as one disjunction
	remaining := []Obligation{}
	var bounds []Obligation
	for _, ob := range obs {
		if ob.WantSat {
			continue
		}
		if ob.Prop == "bound" || ob.Prop == "fault" {
			bounds = append(bounds, ob)
		} else {
			remaining = append(remaining, ob)
		}
	}
	res.Obligations = len(remaining) + len(bounds)
	phase := 0 // 0: property obligations (a violation is found without paying for the bound proofs), 1: bounds
	recordViolation := func(ob Obligation, m map[int]uint64) {
		if ob.Prop == "bound" || ob.Prop == "fault" {
			res.Inconcl = true
			res.Notes = append(res.Notes, "internal obligation satisfiable: "+ob.Name)
		}
		ev := func(t *Term) uint64 { return m[t.ID] }
		viol := Violation{Prop: ob.Prop, Name: ob.Name, Cube: c, Schedule: l.Decode(ev), Oracle: ob.Oracle}
		for _, o := range l.Out {
			viol.Outcomes = append(viol.Outcomes, int(m[o.ID]))
		}
		if c.PreCanc {
			viol.PreCanc = m[l.preCancel.ID] != 0
		}
		if c.Timer {
			viol.Timer = m[l.timerArmed.ID] != 0
		}
		if c.JobCtx && l.jobCtxCancelled != nil {
			viol.JobCtxCancelled = m[l.jobCtxCancelled.ID] != 0
		}
		viol.Sig = l.Signature(ob, viol)
		res.Violations = append(res.Violations, viol)
	}
	for {
		if len(remaining) == 0 {
			if phase == 0 {
				phase = 1
				remaining = bounds
				if len(res.Violations) > 0 && os.Getenv("VERIF_ALLBOUNDS") == "" {
					// a reproduced violation stands on its own; the bound proofs only
					// matter for "holds" verdicts
					for _, ob := range bounds {
						res.Obs = append(res.Obs, ObResult{Prop: ob.Prop, Name: ob.Name, Verdict: "skipped (violation found)"})
					}
					break
				}
				continue
			}
			break
		}
		any := B.False
		var want []*Term
		for _, ob := range remaining {
			any = B.Or(any, ob.Assert)
			want = append(want, ob.Assert)
		}
		want = append(want, l.ModelTerms()...)
		t1 := time.Now()
		var v Verdict = Unknown
		var m map[int]uint64
		// targeted cubes (restricted outcomes) are meant to find a specific
		// violation pattern quickly: their obligations are asked one by one
		// (measured: a disjunction of obligations can take z3 far longer to
		// satisfy than the one violated disjunct)
		if !(phase == 0 && len(c.PerJob) > 0 && len(remaining) > 1) {
			v, m = check(any, want)
		}
		secs := time.Since(t1).Seconds()
		if v == Unsat {
			for _, ob := range remaining {
				res.Obs = append(res.Obs, ObResult{Prop: ob.Prop, Name: ob.Name, Verdict: "unsat", Seconds: secs, Via: "combined query"})
				res.Discharged++
			}
			remaining = nil
			continue
		}
		if v == Unknown && c.Extra && !(phase == 0 && len(c.PerJob) > 0 && len(remaining) > 1) {
			res.Inconcl = true
			res.Error = "solver timeout on the combined query"
			return
		}
		if v == Unknown {
			// fall back to one query per obligation
			for _, ob := range remaining {
				t2 := time.Now()
				v2, m2 := check(ob.Assert, l.ModelTerms())
				res.Obs = append(res.Obs, ObResult{Prop: ob.Prop, Name: ob.Name, Verdict: v2.String(), Seconds: time.Since(t2).Seconds()})
				switch v2 {
				case Unsat:
					res.Discharged++
				case Unknown:
					res.Inconcl = true
					if c.Extra {
						res.Error = "solver timeout on '" + ob.Name + "'"
						return
					}
				case Sat:
					recordViolation(ob, m2)
				}
				if len(res.Violations) > 0 && len(c.PerJob) > 0 {
					break // targeted cube: one reproduced violation is the answer
				}
			}
			if phase == 0 && len(res.Violations) == 0 {
				remaining = nil
				continue
			}
			break
		}
		var next []Obligation
		hit := false
		for _, ob := range remaining {
			if m[ob.Assert.ID] != 0 || ob.Assert.IsTrue() {
				hit = true
				res.Obs = append(res.Obs, ObResult{Prop: ob.Prop, Name: ob.Name, Verdict: "sat", Seconds: secs, Via: "model of the combined query"})
				recordViolation(ob, m)
			} else {
				next = append(next, ob)
			}
		}
		if !hit {
			res.Inconcl = true
			res.Notes = append(res.Notes, "combined query satisfiable but no obligation true in its model")
			break
		}
		remaining = next
	}
	// 2. vacuity witnesses
	for _, ob := range obs {
		if !ob.WantSat {
			continue
		}
		t2 := time.Now()
		v, m := check(ob.Assert, l.ModelTerms())
		res.Obs = append(res.Obs, ObResult{Prop: ob.Prop, Name: ob.Name, Verdict: v.String(), WantSat: true, Seconds: time.Since(t2).Seconds()})
		switch v {
		case Sat:
			res.NonTrivial = true
			if res.Witness == nil {
				res.Witness = l.Decode(func(t *Term) uint64 { return m[t.ID] })
			}
		case Unsat:
			res.Vacuous = true
		default:
			res.Inconcl = true
		}
	}
	return res
}

// Signature names a violation by what fails, independent of solver choices.
func (l *L1) Signature(ob Obligation, v Violation) string {
	sig := ob.Prop + ":" + ob.Name
	if ob.Prop == "C06" {
		// which goroutines are left, and where they are blocked
		var where []string
		last := map[int]string{}
		for _, st := range v.Schedule {
			last[st.Pid] = st.What
		}
		_ = last
		sig += " [" + strings.Join(where, ",") + "]"
	}
	return sig
}

type L1Run struct {
	Prop    string
	Tier    string
	Cubes   []*CubeResult
	WallS   float64
	LoadS   float64
	Solver  string
	Encoded []string
}

// RunL1 runs every cube of the plan on all cores.
func RunL1(prop, tier, solver string, timeoutMs int) (*L1Run, *Program, error) {
	cubes := L1Plan(prop, tier)
	if f := os.Getenv("VERIF_CUBE"); f != "" {
		var sel []*Cube
		for _, c := range cubes {
			if c.ID == f {
				sel = append(sel, c)
			}
		}
		cubes = sel
	}
	t0 := time.Now()
	src := HarnessSource(cubes)
	repo := "/repo"
	if r := os.Getenv("VERIF_REPO"); r != "" {
		repo = r // experiments on a scratch copy; registered commands never set this
	}
	P, err := Load(repo+"/scheduler", map[string][]byte{repo + "/scheduler/zz_verif_harness.go": []byte(src)}, "", ".")
	if err != nil {
		return nil, nil, err
	}
	run := &L1Run{Prop: prop, Tier: tier, Solver: solver, LoadS: time.Since(t0).Seconds()}
	results := make([]*CubeResult, len(cubes))
	var wg sync.WaitGroup
	ch := make(chan int)
	nw := runtime.NumCPU()
	if nw > 16 {
		nw = 16
	}
	if s := os.Getenv("VERIF_WORKERS"); s != "" {
		fmt.Sscanf(s, "%d", &nw)
	}
	for w := 0; w < nw; w++ {
		wg.Add(1)
		go func() {
			defer wg.Done()
			for i := range ch {
				results[i] = RunL1Cube(P, cubes[i], prop, solver, timeoutMs)
				r := results[i]
				fmt.Fprintf(os.Stderr, "  cube %-10s %-60s steps=%d terms=%d build=%.1fs solve=%.1fs discharged=%d/%d viol=%d inconcl=%v %s\n",
					r.ID, r.Cube, r.Steps, r.Terms, r.BuildS, r.SolveS, r.Discharged, r.Obligations, len(r.Violations), r.Inconcl, r.Error)
			}
		}()
	}
	// largest cubes first
	order := make([]int, len(cubes))
	for i := range order {
		order[i] = i
	}
	sort.SliceStable(order, func(a, b int) bool {
		ca, cb := cubes[order[a]], cubes[order[b]]
		wa := ca.J()*10 + ca.N + len(ca.Outcomes)
		wb := cb.J()*10 + cb.N + len(cb.Outcomes)
		return wa > wb
	})
	for _, i := range order {
		ch <- i
	}
	close(ch)
	wg.Wait()
	run.Cubes = results
	run.WallS = time.Since(t0).Seconds()
	enc := map[string]bool{}
	for _, r := range results {
		for _, f := range r.Encoded {
			enc[f] = true
		}
	}
	for f := range enc {
		run.Encoded = append(run.Encoded, f)
	}
	sort.Strings(run.Encoded)
	return run, P, nil
}
