package engine

// One long-lived solver process per cube worker; push/pop per obligation.
// Any "(error" line makes the answer inconclusive.

import (
	"bufio"
	"fmt"
	"io"
	"os"
	"os/exec"
	"strconv"
	"strings"
	"time"
)

type Verdict int

const (
	Unsat Verdict = iota
	Sat
	Unknown
)

func (v Verdict) String() string { return [...]string{"unsat", "sat", "unknown"}[v] }

type Solver struct {
	Name    string
	cmd     *exec.Cmd
	in      io.WriteCloser
	out     *bufio.Reader
	b       *TB
	em      *Emitter
	Queries int
	Time    time.Duration
	Log     io.Writer
	timeout int // ms per query
	args    []string
}

func solverArgs(name string, timeoutMs int) []string {
	switch name {
	case "cvc5":
		return []string{"cvc5", "--incremental", "--produce-models", "--lang=smt2", fmt.Sprintf("--tlimit-per=%d", timeoutMs)}
	case "z3-new":
		return []string{"z3-new", "-in", fmt.Sprintf("-t:%d", timeoutMs)}
	default:
		return []string{"z3", "-in", fmt.Sprintf("-t:%d", timeoutMs)}
	}
}

func NewSolver(b *TB, name string, timeoutMs int) (*Solver, error) {
	s := &Solver{Name: name, b: b, em: NewEmitter(b), timeout: timeoutMs}
	s.args = solverArgs(name, timeoutMs)
	if err := s.start(); err != nil {
		return nil, err
	}
	return s, nil
}

func (s *Solver) start() error {
	s.cmd = exec.Command(s.args[0], s.args[1:]...)
	in, err := s.cmd.StdinPipe()
	if err != nil {
		return err
	}
	out, err := s.cmd.StdoutPipe()
	if err != nil {
		return err
	}
	s.cmd.Stderr = os.Stderr
	if err := s.cmd.Start(); err != nil {
		return err
	}
	s.in = in
	s.out = bufio.NewReaderSize(out, 1<<20)
	s.send("(set-option :print-success false)\n(set-option :produce-models true)\n(set-logic ALL)\n")
	return nil
}

func (s *Solver) send(txt string) {
	if s.Log != nil {
		io.WriteString(s.Log, txt)
	}
	io.WriteString(s.in, txt)
}

func (s *Solver) Close() {
	if s.cmd != nil {
		s.send("(exit)\n")
		s.in.Close()
		s.cmd.Wait()
		s.cmd = nil
	}
}

// readResp reads one balanced s-expression or atom line.
func (s *Solver) readResp() (string, error) {
	var sb strings.Builder
	depth := 0
	started := false
	for {
		line, err := s.out.ReadString('\n')
		if err != nil && line == "" {
			return sb.String(), err
		}
		sb.WriteString(line)
		inStr := false
		for _, c := range line {
			switch {
			case c == '"':
				inStr = !inStr
			case inStr:
			case c == '(':
				depth++
				started = true
			case c == ')':
				depth--
			case c != ' ' && c != '\n' && c != '\t' && c != '\r':
				started = true
			}
		}
		if started && depth <= 0 {
			return sb.String(), nil
		}
	}
}

// Check decides satisfiability of the conjunction of assertions (scoped).
// If sat and wantModel is non-nil, values of those terms are returned.
func (s *Solver) Check(assertions []*Term, want []*Term) (Verdict, map[int]uint64, error) {
	t0 := time.Now()
	defer func() { s.Time += time.Since(t0); s.Queries++ }()
	var sb strings.Builder
	s.em.Define(&sb, assertions...)
	s.em.Define(&sb, want...)
	sb.WriteString("(push 1)\n")
	for _, a := range assertions {
		fmt.Fprintf(&sb, "(assert %s)\n", s.em.Ref(a))
	}
	sb.WriteString("(check-sat)\n")
	s.send(sb.String())
	resp, err := s.readResp()
	if err != nil {
		return Unknown, nil, fmt.Errorf("solver died: %v (%q)", err, resp)
	}
	resp = strings.TrimSpace(resp)
	var v Verdict
	switch {
	case strings.Contains(resp, "(error"):
		s.send("(pop 1)\n")
		return Unknown, nil, fmt.Errorf("solver error: %s", resp)
	case resp == "unsat":
		v = Unsat
	case resp == "sat":
		v = Sat
	default:
		v = Unknown
	}
	var model map[int]uint64
	if v == Sat && len(want) > 0 {
		model = map[int]uint64{}
		// chunked get-value
		for i := 0; i < len(want); i += 200 {
			j := i + 200
			if j > len(want) {
				j = len(want)
			}
			var q strings.Builder
			q.WriteString("(get-value (")
			for _, t := range want[i:j] {
				q.WriteString(s.em.Ref(t) + " ")
			}
			q.WriteString("))\n")
			s.send(q.String())
			r, err := s.readResp()
			if err != nil || strings.Contains(r, "(error") {
				s.send("(pop 1)\n")
				return Unknown, nil, fmt.Errorf("get-value failed: %v %s", err, r)
			}
			vals := parseValues(r)
			if len(vals) != j-i {
				s.send("(pop 1)\n")
				return Unknown, nil, fmt.Errorf("get-value: expected %d values, got %d: %s", j-i, len(vals), r)
			}
			for k, t := range want[i:j] {
				model[t.ID] = vals[k]
			}
		}
	}
	s.send("(pop 1)\n")
	return v, model, nil
}

// parseValues extracts the value literal of each (expr value) pair in order.
func parseValues(r string) []uint64 {
	// tokenise into top-level pairs: ((e v) (e v) ...)
	var out []uint64
	toks := tokenize(r)
	// walk: depth tracking; a pair is a list at depth 2; its last atom is the value
	depth := 0
	var last string
	for _, t := range toks {
		switch t {
		case "(":
			depth++
		case ")":
			if depth == 2 {
				out = append(out, parseLit(last))
			}
			depth--
		default:
			if depth == 2 {
				last = t
			}
		}
	}
	return out
}

func tokenize(s string) []string {
	var toks []string
	i := 0
	for i < len(s) {
		c := s[i]
		switch {
		case c == '(' || c == ')':
			toks = append(toks, string(c))
			i++
		case c == ' ' || c == '\n' || c == '\t' || c == '\r':
			i++
		case c == '|':
			j := i + 1
			for j < len(s) && s[j] != '|' {
				j++
			}
			toks = append(toks, s[i:j+1])
			i = j + 1
		default:
			j := i
			for j < len(s) && !strings.ContainsRune("() \n\t\r", rune(s[j])) {
				j++
			}
			toks = append(toks, s[i:j])
			i = j
		}
	}
	return toks
}

func parseLit(t string) uint64 {
	switch {
	case t == "true":
		return 1
	case t == "false":
		return 0
	case strings.HasPrefix(t, "#x"):
		v, _ := strconv.ParseUint(t[2:], 16, 64)
		return v
	case strings.HasPrefix(t, "#b"):
		v, _ := strconv.ParseUint(t[2:], 2, 64)
		return v
	}
	v, _ := strconv.ParseUint(t, 10, 64)
	return v
}
