package engine

// K layer: sequential kernels. A harness function (overlay, in-package) uses
// verifNd* intrinsics for symbolic inputs, verifAssume/verifAssert/verifCover
// for the contract; the engine executes it from SSA and hands the assertion
// (negated) to the solver.

import (
	"fmt"
	"sort"
	"strings"

	"golang.org/x/tools/go/ssa"
)

type Kernel struct {
	E       *Engine
	Paths   []*Path
	NdVars  map[string]*Term
	Assume  *Term
	Fixed   map[int]int64 // nd sites concretised by the runner (cube parameters)
	pkgPath string
}

// NewKernel prepares an engine with the verifNd* intrinsics for pkgPath.
func NewKernel(P *Program, pkgPath string) *Kernel {
	e := NewEngine(P)
	k := &Kernel{E: e, NdVars: map[string]*Term{}, pkgPath: pkgPath, Fixed: map[int]int64{}}
	B := e.B
	k.Assume = B.True
	pfx := pkgPath + "."
	nd := func(kind string, site *Term, w int) *Term {
		if !site.IsConst() {
			unsupported("verifNd with symbolic site")
		}
		if v, ok := k.Fixed[int(int64(site.Val))]; ok {
			return B.BV(w, uint64(v))
		}
		name := fmt.Sprintf("nd_%s_%d", kind, int64(site.Val))
		v := B.Var(name, w)
		k.NdVars[name] = v
		return v
	}
	e.Intrinsics[pfx+"verifNdInt"] = func(e *Engine, p *Path, ic *ICall) {
		ic.Return(e, p, Value{nd("int", ic.Args[0][0], 64)})
	}
	e.Intrinsics[pfx+"verifNdBool"] = func(e *Engine, p *Path, ic *ICall) {
		ic.Return(e, p, Value{nd("bool", ic.Args[0][0], 0)})
	}
	e.Intrinsics[pfx+"verifAssume"] = func(e *Engine, p *Path, ic *ICall) {
		p.Guard = B.And(p.Guard, ic.Args[0][0])
		ic.Return(e, p, Value{})
	}
	e.Intrinsics[pfx+"verifAssert"] = func(e *Engine, p *Path, ic *ICall) {
		e.RaiseFlag(p, fmt.Sprintf("assert:%d", int64(ic.Args[1][0].Val)), B.Not(ic.Args[0][0]))
		ic.Return(e, p, Value{})
	}
	e.Intrinsics[pfx+"verifCover"] = func(e *Engine, p *Path, ic *ICall) {
		e.RaiseFlag(p, fmt.Sprintf("cover:%d", int64(ic.Args[1][0].Val)), ic.Args[0][0])
		ic.Return(e, p, Value{})
	}
	return k
}

// Run executes the named harness function sequentially.
func (k *Kernel) Run(fn *ssa.Function, initHeap []*Term) {
	k.E.Concurrent = false
	k.Paths = k.E.RunSequential(fn, nil, initHeap)
}

// FlagTerm: the flag is raised on some finished path.
func (k *Kernel) FlagTerm(name string) *Term {
	B := k.E.B
	a, ok := k.E.Flags[name]
	if !ok {
		return B.False
	}
	r := B.False
	for _, p := range k.Paths {
		r = B.Or(r, B.And(p.Guard, p.Load(k.E, a)))
	}
	return r
}

// Completed: some path ran to the end (its guard) without dying of a panic.
func (k *Kernel) Completed() *Term {
	B := k.E.B
	r := B.False
	for _, p := range k.Paths {
		if n := len(p.Parks); n > 0 && p.Parks[n-1].Crash {
			continue
		}
		r = B.Or(r, p.Guard)
	}
	return r
}

// Crashed: some path ends with a panic that nothing recovered (it left the
// harness; on the real build the process dies).
func (k *Kernel) Crashed() *Term {
	B := k.E.B
	r := B.False
	for _, p := range k.Paths {
		if n := len(p.Parks); n > 0 && p.Parks[n-1].Crash {
			r = B.Or(r, p.Guard)
		}
	}
	return r
}

func (k *Kernel) FlagNames(prefix string) []string {
	var out []string
	for n := range k.E.Flags {
		if strings.HasPrefix(n, prefix) {
			out = append(out, n)
		}
	}
	sort.Strings(out)
	return out
}

// ModelTerms: nd variables, every other variable (user-function outcomes and
// results without data arguments) and every uninterpreted application with
// its arguments.
func (k *Kernel) ModelTerms() []*Term {
	seen := map[int]bool{}
	var ts []*Term
	add := func(t *Term) {
		if !seen[t.ID] {
			seen[t.ID] = true
			ts = append(ts, t)
		}
	}
	for _, t := range k.ModelVars() {
		add(t)
	}
	for _, v := range k.E.B.Vars() {
		add(v)
	}
	for _, a := range k.E.B.Apps() {
		add(a)
		for _, x := range a.Args {
			add(x)
		}
	}
	return ts
}

// ModelVars lists the nd variables (for counterexample extraction).
func (k *Kernel) ModelVars() []*Term {
	var names []string
	for n := range k.NdVars {
		names = append(names, n)
	}
	sort.Strings(names)
	var ts []*Term
	for _, n := range names {
		ts = append(ts, k.NdVars[n])
	}
	return ts
}
