package engine

// Processes, channels, select and the symbolic scheduler (one-hot transition
// relation unrolled K times). See DESIGN.md 2.4.

import (
	"fmt"
	"go/token"
	"go/types"
	"os"
	"sort"
	"strings"

	"golang.org/x/tools/go/ssa"
)

type Config struct {
	Key string
	G   *Term
	Ctx *Ctx
}

type Native struct {
	Name string
	// Conflicts reports the processes whose transitions do not commute with
	// this environment process. When set, the process is scheduled eagerly:
	// it may only fire at step t+1 if it was not enabled at step t or step t
	// was taken by a conflicting process (partial-order reduction).
	Conflicts func(pr *Proc) bool
	prevEn    *Term
	En        func(s *Sys) *Term
	Apply     func(s *Sys, q *Path)
}

type Proc struct {
	Pid     int
	Label   string
	Gen     int
	Configs map[string]*Config
	Order   []string // config keys in creation order
	Exited  *Term
	Crashed *Term
	Native  *Native
	hoFull  int
	hoVal   map[string]int
}

type Sys struct {
	E              *Engine
	Procs          []*Proc
	procPools      map[string][]int
	Heap           []*Term
	T              int
	Constraints    []*Term
	Choice         []*Term
	Arm            []*Term
	Peer           []*Term
	MaxGen         int
	Trace          []StepInfo
	StepPaths      int
	Verbose        bool
	SymmetricPeers bool
	POR            bool
	OneHot         bool
	TotalPaths     int
	TotalInstr     int
}

// StepInfo keeps what is needed to decode a model into a schedule.
type StepInfo struct {
	Fires []FireInfo
}

type FireInfo struct {
	G     *Term
	Pid   int
	Key   string
	What  string
	PeerQ []PeerInfo
}

type PeerInfo struct {
	Pid  int
	Cond *Term
}

func NewSys(e *Engine) *Sys {
	e.Concurrent = true
	s := &Sys{E: e, procPools: map[string][]int{}, MaxGen: 4}
	e.sys = s
	return s
}

func (s *Sys) newProc(label string, gen int) *Proc {
	B := s.E.B
	p := &Proc{Pid: len(s.Procs), Label: label, Gen: gen, Configs: map[string]*Config{}, Exited: B.False, Crashed: B.False, hoVal: map[string]int{}}
	p.hoFull = s.E.newObj([]int{0}, ObjPlain, fmt.Sprintf("hoFull:p%d", p.Pid)).Base
	s.Procs = append(s.Procs, p)
	return p
}

func (pr *Proc) ho(e *Engine, lay []int) int {
	k := fmt.Sprint(lay)
	if a, ok := pr.hoVal[k]; ok {
		return a
	}
	a := e.newObj(lay, ObjPlain, fmt.Sprintf("hoVal:p%d", pr.Pid)).Base
	pr.hoVal[k] = a
	return a
}

func (s *Sys) AddNative(n *Native) *Proc {
	p := s.newProc("native:"+n.Name, 0)
	p.Native = n
	return p
}

// ---------- channels ----------

func (e *Engine) makeChan(p *Path, elem types.Type, cap_ int, key string) *Term {
	el := e.Layout(elem)
	lay := []int{0, 8}
	for i := 0; i < cap_; i++ {
		lay = append(lay, el...)
	}
	return e.allocPool(p, key, lay, ObjChan, fmt.Sprintf("chan(%d):%s", cap_, elem), 1, func(o *Obj) {
		o.Cap = cap_
		o.Elem = elem
		o.ElemLay = el
	})
}

func (e *Engine) chanClosed(p *Path, o *Obj) *Term { return p.Load(e, o.Base) }
func (e *Engine) chanCount(p *Path, o *Obj) *Term  { return p.Load(e, o.Base+1) }

func (e *Engine) chanSlot(p *Path, o *Obj, i int) Value {
	n := len(o.ElemLay)
	v := make(Value, n)
	for k := 0; k < n; k++ {
		v[k] = p.Load(e, o.Base+2+i*n+k)
	}
	return v
}

func (e *Engine) setChanSlot(p *Path, o *Obj, i int, v Value) {
	n := len(o.ElemLay)
	for k := 0; k < n; k++ {
		p.Store(e, o.Base+2+i*n+k, v[k])
	}
}

func (e *Engine) iteVal(c *Term, x, y Value) Value {
	r := make(Value, len(x))
	for i := range x {
		r[i] = e.B.Ite(c, x[i], y[i])
	}
	return r
}

func (e *Engine) chanObjs(ch *Term) []*Obj {
	addrs, _ := e.ptrLeaves(ch)
	var out []*Obj
	for _, a := range addrs {
		o := e.ObjAt(uint64(a))
		if o != nil && o.Kind == ObjChan && o.Base == a {
			out = append(out, o)
		}
	}
	return out
}

// ---------- spawn ----------

func (e *Engine) spawn(p *Path, cc *ssa.CallCommon, args []Value, fr *Frame, in *ssa.Go) {
	s := e.sys
	if s == nil {
		unsupported("go statement outside concurrent mode")
	}
	B := e.B
	parent := s.Procs[p.Cur.Pid]
	key := e.siteKey(p, in, "go")
	// pid allocation: concrete counter, or a single shared slot
	cntKey := "gocnt|" + key
	pl := e.pools[cntKey]
	if pl == nil {
		c := e.newObj([]int{8}, ObjPlain, "gocnt")
		pl = &Pool{Cnt: c.Base}
		e.pools[cntKey] = pl
	}
	cnt := p.Load(e, pl.Cnt)
	p.Store(e, pl.Cnt, B.Add(cnt, B.BV(8, 1)))
	idx := 0
	if cnt.IsConst() {
		idx = int(cnt.Val)
	} else {
		e.RaiseFlag(p, "unwind", B.Not(B.Eq(cnt, B.BV(8, 0))))
	}
	if parent.Gen+1 > s.MaxGen {
		e.RaiseFlag(p, "unwind", B.True)
		e.Notes = append(e.Notes, "process generation bound hit at "+key)
		return
	}
	pids := s.procPools[key]
	for len(pids) <= idx {
		np := s.newProc(fmt.Sprintf("%s<-p%d", calleeName(cc), parent.Pid), parent.Gen+1)
		pids = append(pids, np.Pid)
	}
	s.procPools[key] = pids
	pid := pids[idx]
	// build the child's first frame
	var nf *Frame
	switch callee := cc.Value.(type) {
	case *ssa.Function:
		if _, ok := e.Intrinsics[callee.String()]; ok {
			unsupported("go of intrinsic %s", callee)
		}
		nf = e.NewFrame(callee, args, nil)
	default:
		if cc.IsInvoke() {
			unsupported("go on interface method")
		}
		fv := e.Eval(fr, cc.Value)
		addrs, _ := e.ptrLeaves(fv[0])
		if len(addrs) != 1 {
			unsupported("go on symbolic function value")
		}
		o := e.ObjAt(uint64(addrs[0]))
		if o == nil || o.Kind != ObjClosure || o.Fn == nil {
			unsupported("go on non-closure")
		}
		var bind []Value
		off := 1
		for _, v := range o.Fn.FreeVars {
			n := len(e.Layout(v.Type()))
			val := make(Value, n)
			for k := 0; k < n; k++ {
				val[k] = p.Load(e, o.Base+off+k)
			}
			off += n
			bind = append(bind, val)
		}
		nf = e.NewFrame(o.Fn, args, bind)
	}
	if e.Race != nil {
		e.Race.Fork(p, parent.Pid, pid)
	}
	if e.SpawnHook != nil {
		e.SpawnHook(p, calleeName(cc))
	}
	// eager: run the child's initial local segment inside this path
	p.Suspended = append(p.Suspended, p.Cur)
	p.Cur = &Ctx{Pid: pid, Frames: []*Frame{nf}}
}

func calleeName(cc *ssa.CallCommon) string {
	if f := cc.StaticCallee(); f != nil {
		return f.Name()
	}
	return cc.Value.Name()
}

// syncPoint parks the current process before a synchronisation instruction.
func (e *Engine) syncPoint(p *Path, instr ssa.Instruction) bool {
	if !e.Concurrent {
		unsupported("synchronisation instruction %T outside concurrent mode", instr)
	}
	return e.park(p)
}

// callStub: the stub's start event happens in the caller's segment, then the
// process parks until the stub's end fires.
func (e *Engine) callStub(p *Path, st *Stub, ic *ICall) {
	h := e.StubHandlers[st.Name]
	if h == nil {
		unsupported("no handler for stub %s", st.Name)
	}
	if h.Start != nil {
		h.Start(e, p, st, ic)
	}
	if h.Variants == nil {
		return
	}
	if p.Cur == nil || len(p.Cur.Frames) == 0 {
		return
	}
	fr := p.Cur.top()
	fr.Phase = 1
	fr.StubK = st
	e.park(p)
}

type StubVariant struct {
	What  string
	En    *Term
	Apply func(e *Engine, q *Path, ic *ICall)
}

type StubHandler struct {
	Start    func(e *Engine, p *Path, st *Stub, ic *ICall)
	Variants func(s *Sys, pre *Path, st *Stub, args []Value) []StubVariant
}

// ---------- the stepper ----------

type variant struct {
	what  string
	en    *Term // enabledness (state only)
	extra *Term // scheduler-choice condition (arm, peer)
	apply func(q *Path)
	peers []PeerInfo
}

// pre returns a read-only view of the current state as a Path.
func (s *Sys) pre() *Path { return &Path{Guard: s.E.B.True, Heap: s.Heap} }

func (s *Sys) recvVariants(pr *Proc, ch *Term, resultOf func(v Value, ok *Term) Value, finish func(q *Path, res Value), extra *Term) []variant {
	e := s.E
	B := e.B
	pre := s.pre()
	var out []variant
	for _, o := range e.chanObjs(ch) {
		o := o
		isThis := B.Eq(ch, B.BV(64, uint64(o.Base)))
		if isThis.IsFalse() {
			continue
		}
		zero := e.Zero(o.ElemLay)
		if o.Cap == 0 {
			hoA := pr.ho(e, o.ElemLay)
			full := pre.Load(e, pr.hoFull)
			en := B.And(isThis, B.Or(full, e.chanClosed(pre, o)))
			out = append(out, variant{what: "recv " + o.Label, en: en, extra: extra, apply: func(q *Path) {
				f := q.Load(e, pr.hoFull)
				hv := make(Value, len(o.ElemLay))
				for k := range hv {
					hv[k] = q.Load(e, hoA+k)
				}
				v := e.iteVal(f, hv, zero)
				q.Store(e, pr.hoFull, B.False)
				if e.Race != nil {
					e.Race.Acquire(q, pr.Pid, fmt.Sprintf("ho%d", pr.Pid), f)
					e.Race.Acquire(q, pr.Pid, fmt.Sprintf("close%d", o.Base), B.Not(f))
				}
				finish(q, resultOf(v, f))
			}})
		} else {
			cnt := e.chanCount(pre, o)
			nonEmpty := B.Not(B.Eq(cnt, B.BV(8, 0)))
			en := B.And(isThis, B.Or(nonEmpty, e.chanClosed(pre, o)))
			out = append(out, variant{what: "recv " + o.Label, en: en, extra: extra, apply: func(q *Path) {
				c := e.chanCount(q, o)
				ne := B.Not(B.Eq(c, B.BV(8, 0)))
				v := e.iteVal(ne, e.chanSlot(q, o, 0), zero)
				for i := 0; i < o.Cap; i++ {
					var nxt Value
					if i+1 < o.Cap {
						nxt = e.chanSlot(q, o, i+1)
					} else {
						nxt = zero
					}
					e.setChanSlot(q, o, i, e.iteVal(ne, nxt, e.chanSlot(q, o, i)))
				}
				q.Store(e, o.Base+1, B.Ite(ne, B.Sub(c, B.BV(8, 1)), c))
				if e.Race != nil {
					e.Race.Acquire(q, pr.Pid, fmt.Sprintf("ch%d#0", o.Base), ne)
					e.Race.Acquire(q, pr.Pid, fmt.Sprintf("close%d", o.Base), B.Not(ne))
					for i := 0; i+1 < o.Cap; i++ {
						e.Race.Move(q, fmt.Sprintf("ch%d#%d", o.Base, i+1), fmt.Sprintf("ch%d#%d", o.Base, i), ne)
					}
				}
				finish(q, resultOf(v, ne))
			}})
		}
	}
	return out
}

// waitingReceivers: for an unbuffered channel object, the processes parked at
// a plain receive on it that have not been handed a value yet.
func (s *Sys) waitingReceivers(self *Proc, o *Obj) []PeerInfo {
	e := s.E
	B := e.B
	pre := s.pre()
	var out []PeerInfo
	for _, q := range s.Procs {
		if q == self || q.Native != nil {
			continue
		}
		w := B.False
		for _, k := range q.Order {
			c := q.Configs[k]
			if c == nil {
				continue
			}
			fr := c.Ctx.top()
			if fr.PC < 0 || fr.Phase != 0 {
				continue
			}
			un, ok := fr.Block.Instrs[fr.PC].(*ssa.UnOp)
			if !ok || un.Op != token.ARROW {
				continue
			}
			ch := e.Eval(fr, un.X)[0]
			w = B.Or(w, B.And(c.G, B.Eq(ch, B.BV(64, uint64(o.Base)))))
		}
		w = B.And(w, B.Not(pre.Load(e, q.hoFull)))
		if !w.IsFalse() {
			out = append(out, PeerInfo{Pid: q.Pid, Cond: w})
		}
	}
	return out
}

func (s *Sys) sendVariants(pr *Proc, ch *Term, val Value, finish func(q *Path), extra *Term, peerVar *Term) []variant {
	e := s.E
	B := e.B
	pre := s.pre()
	var out []variant
	for _, o := range e.chanObjs(ch) {
		o := o
		isThis := B.Eq(ch, B.BV(64, uint64(o.Base)))
		if isThis.IsFalse() {
			continue
		}
		closed := e.chanClosed(pre, o)
		out = append(out, variant{what: "send-on-closed " + o.Label, en: B.And(isThis, closed), extra: extra, apply: func(q *Path) {
			e.forkFault(q, B.True, "send on closed channel")
		}})
		if o.Cap == 0 {
			ws := s.waitingReceivers(pr, o)
			any := B.False
			pick := B.False
			var peers []PeerInfo
			for _, w := range ws {
				var c *Term
				if s.SymmetricPeers {
					// receivers parked at the same receive are interchangeable: hand the
					// value to the lowest-numbered one (symmetry reduction, DESIGN 2.4)
					c = B.And(w.Cond, B.Not(any))
				} else {
					c = B.And(w.Cond, B.Eq(peerVar, B.BV(8, uint64(w.Pid))))
				}
				any = B.Or(any, w.Cond)
				pick = B.Or(pick, c)
				peers = append(peers, PeerInfo{Pid: w.Pid, Cond: c})
			}
			en := B.And(isThis, B.Not(closed), any)
			out = append(out, variant{what: "send " + o.Label, en: en, extra: B.And(extra, pick), peers: peers, apply: func(q *Path) {
				if e.Race != nil {
					for _, pi := range peers {
						e.Race.Release(q, pr.Pid, fmt.Sprintf("ho%d", pi.Pid), pi.Cond)
					}
					e.Race.tick(q, pr.Pid)
				}
				for _, pi := range peers {
					rq := s.Procs[pi.Pid]
					q.Store(e, rq.hoFull, B.Or(q.Load(e, rq.hoFull), pi.Cond))
					hoA := rq.ho(e, o.ElemLay)
					for k := range val {
						q.Store(e, hoA+k, B.Ite(pi.Cond, val[k], q.Load(e, hoA+k)))
					}
				}
				finish(q)
			}})
		} else {
			cnt := e.chanCount(pre, o)
			en := B.And(isThis, B.Not(closed), B.Ult(cnt, B.BV(8, uint64(o.Cap))))
			out = append(out, variant{what: "send " + o.Label, en: en, extra: extra, apply: func(q *Path) {
				c := e.chanCount(q, o)
				for i := 0; i < o.Cap; i++ {
					at := B.Eq(c, B.BV(8, uint64(i)))
					e.setChanSlot(q, o, i, e.iteVal(at, val, e.chanSlot(q, o, i)))
					if e.Race != nil {
						e.Race.Release(q, pr.Pid, fmt.Sprintf("ch%d#%d", o.Base, i), at)
					}
				}
				if e.Race != nil {
					e.Race.tick(q, pr.Pid)
				}
				q.Store(e, o.Base+1, B.Add(c, B.BV(8, 1)))
				finish(q)
			}})
		}
	}
	return out
}

func (s *Sys) closeVariants(ch *Term, finish func(q *Path)) []variant {
	e := s.E
	B := e.B
	var out []variant
	objs := e.chanObjs(ch)
	_, nilc := e.ptrLeaves(ch)
	if !nilc.IsFalse() {
		out = append(out, variant{what: "close nil", en: nilc, extra: B.True, apply: func(q *Path) { e.forkFault(q, B.True, "close of nil channel") }})
	}
	pre := s.pre()
	for _, o := range objs {
		o := o
		isThis := B.Eq(ch, B.BV(64, uint64(o.Base)))
		closed := e.chanClosed(pre, o)
		out = append(out, variant{what: "close-closed " + o.Label, en: B.And(isThis, closed), extra: B.True, apply: func(q *Path) { e.forkFault(q, B.True, "close of closed channel") }})
		out = append(out, variant{what: "close " + o.Label, en: B.And(isThis, B.Not(closed)), extra: B.True, apply: func(q *Path) {
			q.Store(e, o.Base, B.True)
			if e.Race != nil && q.Cur != nil {
				e.Race.ReleaseJoin(q, q.Cur.Pid, fmt.Sprintf("close%d", o.Base))
			}
			finish(q)
		}})
	}
	return out
}

// variantsOf computes the possible firings of a parked configuration.
func (s *Sys) variantsOf(pr *Proc, c *Config, arm, peer *Term) []variant {
	e := s.E
	B := e.B
	fr := c.Ctx.top()
	if fr.PC < 0 {
		// deferred close
		d := fr.Defers[len(fr.Defers)-1]
		return s.closeVariants(d.Args[0][0], func(q *Path) {
			qf := q.Cur.top()
			qf.Defers = qf.Defers[:len(qf.Defers)-1]
		})
	}
	instr := fr.Block.Instrs[fr.PC]
	if fr.Phase == 1 {
		call := instr.(*ssa.Call)
		st := fr.StubK
		h := e.StubHandlers[st.Name]
		var args []Value
		for _, a := range call.Call.Args {
			args = append(args, e.Eval(fr, a))
		}
		var out []variant
		for _, sv := range h.Variants(s, s.pre(), st, args) {
			sv := sv
			out = append(out, variant{what: fmt.Sprintf("%s#%d:%s", st.Name, st.K, sv.What), en: sv.En, extra: B.True, apply: func(q *Path) {
				qf := q.Cur.top()
				qf.Phase = 0
				qf.StubK = nil
				sv.Apply(e, q, &ICall{Site: call, Call: call, Args: args})
			}})
		}
		return out
	}
	switch in := instr.(type) {
	case *ssa.UnOp: // receive
		ch := e.Eval(fr, in.X)[0]
		return s.recvVariants(pr, ch, func(v Value, ok *Term) Value {
			if in.CommaOk {
				return append(append(Value(nil), v...), ok)
			}
			return v
		}, func(q *Path, res Value) { e.finish(q.Cur.top(), in, res) }, B.True)
	case *ssa.Send:
		ch := e.Eval(fr, in.Chan)[0]
		return s.sendVariants(pr, ch, e.Eval(fr, in.X), func(q *Path) { q.Cur.top().PC++ }, B.True, peer)
	case *ssa.Select:
		var out []variant
		// result layout: index, ok, then one value per receive state
		type recvSlot struct{ off, n int }
		var slots []recvSlot
		off := 2
		for _, st := range in.States {
			if st.Dir == types.RecvOnly {
				n := len(e.Layout(st.Chan.Type().Underlying().(*types.Chan).Elem()))
				slots = append(slots, recvSlot{off, n})
				off += n
			} else {
				slots = append(slots, recvSlot{-1, 0})
			}
		}
		total := off
		mkResult := func(i int, ok *Term, v Value) Value {
			res := make(Value, 0, total)
			res = append(res, B.BV(64, uint64(int64(i))), ok)
			for k, st := range in.States {
				if st.Dir != types.RecvOnly {
					continue
				}
				el := e.Layout(st.Chan.Type().Underlying().(*types.Chan).Elem())
				if k == i {
					res = append(res, v...)
				} else {
					res = append(res, e.Zero(el)...)
				}
			}
			return res
		}
		anyEn := B.False
		for i, st := range in.States {
			i := i
			ch := e.Eval(fr, st.Chan)[0]
			armIs := B.Eq(arm, B.BV(8, uint64(i)))
			var vs []variant
			if st.Dir == types.RecvOnly {
				vs = s.recvVariants(pr, ch, func(v Value, ok *Term) Value { return mkResult(i, ok, v) },
					func(q *Path, res Value) { e.finish(q.Cur.top(), in, res) }, armIs)
				// receivers in select cannot take part in a rendezvous (see DESIGN 2.4)
			} else {
				vs = s.sendVariants(pr, ch, e.Eval(fr, st.Send), func(q *Path) {
					e.finish(q.Cur.top(), in, mkResult(i, B.False, nil))
				}, armIs, peer)
			}
			for _, v := range vs {
				v.what = fmt.Sprintf("select[%d] %s", i, v.what)
				anyEn = B.Or(anyEn, v.en)
				out = append(out, v)
			}
		}
		if !in.Blocking {
			out = append(out, variant{what: "select default", en: B.Not(anyEn), extra: B.True, apply: func(q *Path) {
				e.finish(q.Cur.top(), in, mkResult(-1, B.False, nil))
			}})
		}
		return out
	case *ssa.Call:
		if bi, ok := in.Call.Value.(*ssa.Builtin); ok && bi.Name() == "close" {
			ch := e.Eval(fr, in.Call.Args[0])[0]
			return s.closeVariants(ch, func(q *Path) { e.finish(q.Cur.top(), in, Value{}) })
		}
		if in.Call.IsInvoke() && e.SyncInvoke != nil {
			if vs := e.SyncInvoke(s, pr, c, in); vs != nil {
				return vs
			}
		}
	}
	unsupported("parked at unexpected instruction %T in %s", instr, fr.Fn)
	return nil
}

// Start runs the entry function as process 0 until every process is parked.
func (s *Sys) Start(entry *ssa.Function, args []Value) {
	e := s.E
	B := e.B
	p0 := s.newProc("caller", 0)
	path := &Path{Guard: B.True, Heap: append([]*Term(nil), e.init...), Cur: &Ctx{Pid: p0.Pid, Frames: []*Frame{e.NewFrame(entry, args, nil)}}}
	e.Schedule(path)
	done := e.RunAll()
	s.absorb(done)
}

// absorb merges finished paths into the system state.
func (s *Sys) absorb(paths []*Path) {
	e := s.E
	B := e.B
	B.Phase = "absorb-heap"
	defer func() { B.Phase = "" }()
	// heap merge: group by value
	type gv struct {
		val *Term
		g   *Term
	}
	changed := map[int][]gv{}
	var order []int
	for _, p := range paths {
		s.TotalInstr += p.Fuel
		for i, v := range p.Heap {
			if v == nil {
				continue
			}
			var old *Term
			if i < len(s.Heap) {
				old = s.Heap[i]
			}
			if old == nil {
				old = B.BV(e.cellW[i], 0)
			}
			if v == old {
				continue
			}
			lst, ok := changed[i]
			if !ok {
				order = append(order, i)
			}
			found := false
			for k := range lst {
				if lst[k].val == v {
					lst[k].g = B.Or(lst[k].g, p.Guard)
					found = true
					break
				}
			}
			if !found {
				lst = append(lst, gv{v, p.Guard})
			}
			changed[i] = lst
		}
	}
	sort.Ints(order)
	for _, i := range order {
		for len(s.Heap) <= i {
			s.Heap = append(s.Heap, nil)
		}
		cur := s.Heap[i]
		if cur == nil {
			cur = B.BV(e.cellW[i], 0)
		}
		for _, x := range changed[i] {
			cur = B.Ite(x.g, x.val, cur)
		}
		if e.cellInt[i] {
			cur = e.clampInt(cur, func(c *Term) {
				fa := e.Flag("unwind") - AddrBase
				for len(s.Heap) <= fa {
					s.Heap = append(s.Heap, nil)
				}
				old := s.Heap[fa]
				if old == nil {
					old = B.False
				}
				s.Heap[fa] = B.Or(old, c)
			})
		}
		s.Heap[i] = cur
	}
	// process configurations
	B.Phase = "absorb-cfg"
	for _, p := range paths {
		for _, rec := range p.Parks {
			pr := s.Procs[rec.Pid]
			if rec.Exited {
				pr.Exited = B.Or(pr.Exited, p.Guard)
				if rec.Crash {
					pr.Crashed = B.Or(pr.Crashed, p.Guard)
				}
				continue
			}
			c := pr.Configs[rec.Key]
			if c == nil {
				pr.Configs[rec.Key] = &Config{Key: rec.Key, G: p.Guard, Ctx: rec.Ctx}
				pr.Order = append(pr.Order, rec.Key)
				continue
			}
			e.mergeCtx(c.Ctx, rec.Ctx, p.Guard)
			c.G = B.Or(c.G, p.Guard)
		}
	}
}

func (e *Engine) mergeVal(g *Term, nv, old Value) Value {
	if old == nil {
		return nv
	}
	if nv == nil {
		return old
	}
	if len(nv) != len(old) {
		unsupported("merge of values with different layouts")
	}
	r := make(Value, len(nv))
	for i := range nv {
		r[i] = e.B.Ite(g, nv[i], old[i])
	}
	return r
}

// mergeCtx merges src into dst under guard g (same configuration key).
func (e *Engine) mergeCtx(dst, src *Ctx, g *Term) {
	if len(dst.Frames) != len(src.Frames) {
		unsupported("merge of different stack depths")
	}
	for i, df := range dst.Frames {
		sf := src.Frames[i]
		for k := range df.Regs {
			df.Regs[k] = e.mergeVal(g, sf.Regs[k], df.Regs[k])
		}
		for k := range df.Defers {
			dd, sd := &df.Defers[k], &sf.Defers[k]
			dd.Fn = e.mergeVal(g, sd.Fn, dd.Fn)
			for a := range dd.Args {
				dd.Args[a] = e.mergeVal(g, sd.Args[a], dd.Args[a])
			}
		}
	}
	if dst.Pan != nil && src.Pan != nil {
		dst.Pan.Val = e.mergeVal(g, src.Pan.Val, dst.Pan.Val)
	}
}

// EnabledTerm: some process can move in the current state.
func (s *Sys) EnabledTerm() *Term {
	B := s.E.B
	any := B.False
	arm := B.Var("arm_probe", 8)
	peer := B.Var("peer_probe", 8)
	for _, pr := range s.Procs {
		if pr.Native != nil {
			any = B.Or(any, pr.Native.En(s))
			continue
		}
		for _, k := range pr.Order {
			c := pr.Configs[k]
			if c == nil || c.G.IsFalse() {
				continue
			}
			for _, v := range s.variantsOf(pr, c, arm, peer) {
				any = B.Or(any, B.And(c.G, v.en))
			}
		}
	}
	return any
}

// Step unrolls one transition.
func (s *Sys) Step() {
	e := s.E
	B := e.B
	t := s.T
	choice := B.Var(fmt.Sprintf("choice_%d", t), 8)
	arm := B.Var(fmt.Sprintf("arm_%d", t), 8)
	peer := B.Var(fmt.Sprintf("peer_%d", t), 8)
	s.Choice = append(s.Choice, choice)
	s.Arm = append(s.Arm, arm)
	s.Peer = append(s.Peer, peer)
	anyEn := B.False
	fired := B.False
	var info StepInfo
	type firing struct {
		c *Config
		g *Term
	}
	var firings []firing
	B.Phase = "variants"
	for _, pr := range s.Procs {
		pick := B.Eq(choice, B.BV(8, uint64(pr.Pid)))
		if pr.Native != nil {
			en := pr.Native.En(s)
			if en.IsFalse() {
				continue
			}
			anyEn = B.Or(anyEn, en)
			g := B.And(pick, en)
			if pr.Native.Conflicts != nil && s.POR {
				if pr.Native.prevEn != nil && t > 0 {
					prevConf := B.False
					for _, q := range s.Procs {
						if q != pr && pr.Native.Conflicts(q) {
							prevConf = B.Or(prevConf, B.Eq(s.Choice[t-1], B.BV(8, uint64(q.Pid))))
						}
					}
					s.Constraints = append(s.Constraints, B.Implies(B.And(g, pr.Native.prevEn), prevConf))
				}
				pr.Native.prevEn = en
			}
			fired = B.Or(fired, g)
			q := &Path{Guard: g, Heap: append([]*Term(nil), s.Heap...)}
			pr.Native.Apply(s, q)
			e.done = append(e.done, q)
			info.Fires = append(info.Fires, FireInfo{G: g, Pid: pr.Pid, What: pr.Native.Name})
			continue
		}
		for _, k := range pr.Order {
			c := pr.Configs[k]
			if c == nil || c.G.IsFalse() {
				continue
			}
			cf := B.False
			for _, v := range s.variantsOf(pr, c, arm, peer) {
				if v.en.IsFalse() {
					continue
				}
				anyEn = B.Or(anyEn, B.And(c.G, v.en))
				g := B.And(pick, c.G, v.en, v.extra)
				if g.IsFalse() {
					continue
				}
				cf = B.Or(cf, g)
				q := &Path{Guard: g, Heap: append([]*Term(nil), s.Heap...), Cur: c.Ctx.clone(), Origin: c.Key}
				v.apply(q)
				e.Schedule(q)
				info.Fires = append(info.Fires, FireInfo{G: g, Pid: pr.Pid, Key: k, What: v.what, PeerQ: v.peers})
			}
			if !cf.IsFalse() {
				firings = append(firings, firing{c, cf})
				fired = B.Or(fired, cf)
			}
		}
	}
	pre := e.done
	e.done = nil
	B.Phase = "exec"
	done := e.RunAll()
	B.Phase = ""
	done = append(done, pre...)
	s.StepPaths = len(done)
	s.TotalPaths += len(done)
	for _, f := range firings {
		f.c.G = B.And(f.c.G, B.Not(f.g))
	}
	s.absorb(done)
	// drop dead configurations
	for _, pr := range s.Procs {
		for k, c := range pr.Configs {
			if c.G.IsFalse() {
				delete(pr.Configs, k)
			}
		}
	}
	s.Constraints = append(s.Constraints, B.Implies(anyEn, fired))
	if s.OneHot {
		// redundant (implied) lemmas: a process is at no more than one location
		for _, pr := range s.Procs {
			var gs []*Term
			for _, k := range pr.Order {
				if c := pr.Configs[k]; c != nil {
					gs = append(gs, c.G)
				}
			}
			gs = append(gs, pr.Exited)
			for i := range gs {
				for j := i + 1; j < len(gs); j++ {
					x := B.Not(B.And(gs[i], gs[j]))
					if !x.IsTrue() {
						s.Constraints = append(s.Constraints, x)
					}
				}
			}
		}
	}
	s.Trace = append(s.Trace, info)
	s.T++
	if s.Verbose {
		nc := 0
		for _, pr := range s.Procs {
			nc += len(pr.Configs)
		}
		fmt.Fprintf(os.Stderr, "  step %d: paths=%d configs=%d terms=%d heap=%d procs=%d\n", s.T, len(done), nc, B.NumTerms(), len(s.Heap), len(s.Procs))
	}
}

// AliveTerm: the process has started and not exited.
func (pr *Proc) AliveTerm(B *TB) *Term {
	a := B.False
	for _, k := range pr.Order {
		if c := pr.Configs[k]; c != nil {
			a = B.Or(a, c.G)
		}
	}
	return a
}

func (s *Sys) Load(addr int) *Term { return s.pre().Load(s.E, addr) }

// DescribeConfigs is a debugging aid.
func (s *Sys) DescribeConfigs() string {
	var sb strings.Builder
	for _, pr := range s.Procs {
		fmt.Fprintf(&sb, "p%d %s gen=%d configs=%d\n", pr.Pid, pr.Label, pr.Gen, len(pr.Configs))
		for _, k := range pr.Order {
			if c := pr.Configs[k]; c != nil {
				fr := c.Ctx.top()
				loc := "defers"
				if fr.PC >= 0 {
					loc = fmt.Sprintf("%T", fr.Block.Instrs[fr.PC])
				}
				fmt.Fprintf(&sb, "    %s b%d.%d %s phase=%d depth=%d\n", fr.Fn.Name(), fr.Block.Index, fr.PC, loc, fr.Phase, len(c.Ctx.Frames))
			}
		}
	}
	return sb.String()
}
