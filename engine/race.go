package engine

// Happens-before (vector clock) monitor for C12, woven into the L1
// unrolling. Every goroutine carries a vector clock; channel operations,
// close, go and context cancellation transfer clocks as the Go memory model
// prescribes; every SSA-level load/store of a heap cell is checked against
// the cell's last write epoch and read vector (FastTrack-style, with full
// read vectors). A conflicting pair of accesses not ordered by
// happens-before raises the sticky "C12" flag.

import "fmt"

const (
	vcW   = 6 // clock width (bits)
	vcPid = 4 // process-id width
)

type cellMon struct {
	wProc, wClk int   // cells: last writer pid+1 (0 = none), its clock
	r           []int // per process: clock of its last read (0 = none)
}

type RaceMon struct {
	e     *Engine
	P     int
	vc    [][]int // vc[p][q] cell addresses
	cells map[int]*cellMon
	chanC map[string][]int // per channel slot / handoff: clock snapshot cells
	Count int
}

func NewRaceMon(e *Engine, maxProcs int) *RaceMon {
	return &RaceMon{e: e, P: maxProcs, cells: map[int]*cellMon{}, chanC: map[string][]int{}}
}

func (r *RaceMon) vcCells(p int) []int {
	for len(r.vc) <= p {
		var row []int
		for q := 0; q < r.P; q++ {
			row = append(row, r.e.newObj([]int{vcW}, ObjPlain, fmt.Sprintf("vc[%d][%d]", len(r.vc), q)).Base)
		}
		r.vc = append(r.vc, row)
	}
	if p >= r.P {
		unsupported("race monitor: more than %d processes", r.P)
	}
	return r.vc[p]
}

func (r *RaceMon) clock(pa *Path, p int) []*Term {
	cs := r.vcCells(p)
	out := make([]*Term, r.P)
	for q := range out {
		out[q] = pa.Load(r.e, cs[q])
	}
	// a process's own component starts at 1
	B := r.e.B
	out[p] = B.Ite(B.Eq(out[p], B.BV(vcW, 0)), B.BV(vcW, 1), out[p])
	return out
}

func (r *RaceMon) setClock(pa *Path, p int, vc []*Term, cond *Term) {
	cs := r.vcCells(p)
	B := r.e.B
	for q := range vc {
		if cond == nil {
			pa.Store(r.e, cs[q], vc[q])
		} else {
			pa.Store(r.e, cs[q], B.Ite(cond, vc[q], pa.Load(r.e, cs[q])))
		}
	}
}

func (r *RaceMon) max(a, b *Term) *Term {
	B := r.e.B
	return B.Ite(B.Ult(a, b), b, a)
}

// tick: a release operation advances the process's own component.
func (r *RaceMon) tick(pa *Path, p int) {
	B := r.e.B
	vc := r.clock(pa, p)
	nv, _ := B.ClampSigned(B.Add(vc[p], B.BV(vcW, 1)), 0, 62)
	if !B.constLeafTree(nv) {
		nv = B.Add(vc[p], B.BV(vcW, 1))
	}
	vc[p] = nv
	r.setClock(pa, p, vc, nil)
}

// snapshot storage keyed by a name (channel slot, handoff, close, ctx)
func (r *RaceMon) snap(key string) []int {
	if c, ok := r.chanC[key]; ok {
		return c
	}
	var cs []int
	for q := 0; q < r.P; q++ {
		cs = append(cs, r.e.newObj([]int{vcW}, ObjPlain, "vcsnap:"+key).Base)
	}
	r.chanC[key] = cs
	return cs
}

// Release stores the releasing process's clock under key (when cond); the caller ticks.
func (r *RaceMon) Release(pa *Path, p int, key string, cond *Term) {
	B := r.e.B
	vc := r.clock(pa, p)
	cs := r.snap(key)
	for q := range vc {
		old := pa.Load(r.e, cs[q])
		v := vc[q]
		if cond != nil {
			v = B.Ite(cond, v, old)
		}
		pa.Store(r.e, cs[q], v)
	}
}

// ReleaseJoin is Release that joins with what is already stored (close after
// sends, several cancellers).
func (r *RaceMon) ReleaseJoin(pa *Path, p int, key string) {
	vc := r.clock(pa, p)
	cs := r.snap(key)
	for q := range vc {
		pa.Store(r.e, cs[q], r.max(pa.Load(r.e, cs[q]), vc[q]))
	}
	r.tick(pa, p)
}

// Acquire joins the clock stored under key into p's clock (when cond).
func (r *RaceMon) Acquire(pa *Path, p int, key string, cond *Term) {
	B := r.e.B
	vc := r.clock(pa, p)
	cs := r.snap(key)
	for q := range vc {
		m := r.max(vc[q], pa.Load(r.e, cs[q]))
		if cond != nil {
			m = B.Ite(cond, m, vc[q])
		}
		vc[q] = m
	}
	r.setClock(pa, p, vc, nil)
}

// Move copies the snapshot stored under from to key to (buffer shifting).
func (r *RaceMon) Move(pa *Path, from, to string, cond *Term) {
	B := r.e.B
	a, b := r.snap(from), r.snap(to)
	for q := range a {
		v := pa.Load(r.e, a[q])
		if cond != nil {
			v = B.Ite(cond, v, pa.Load(r.e, b[q]))
		}
		pa.Store(r.e, b[q], v)
	}
}

// Fork: the child starts with the parent's clock; the parent ticks.
func (r *RaceMon) Fork(pa *Path, parent, child int) {
	vc := r.clock(pa, parent)
	cvc := append([]*Term(nil), vc...)
	cvc[child] = r.e.B.BV(vcW, 1)
	r.setClock(pa, child, cvc, nil)
	r.tick(pa, parent)
}

func (r *RaceMon) mon(addr int) *cellMon {
	if m, ok := r.cells[addr]; ok {
		return m
	}
	e := r.e
	m := &cellMon{
		wProc: e.newObj([]int{vcPid}, ObjPlain, fmt.Sprintf("wproc@%d", addr)).Base,
		wClk:  e.newObj([]int{vcW}, ObjPlain, fmt.Sprintf("wclk@%d", addr)).Base,
		r:     make([]int, r.P),
	}
	r.cells[addr] = m
	return m
}

func (r *RaceMon) tracked(addr int) bool {
	o := r.e.ObjAt(uint64(addr))
	if o == nil {
		return false
	}
	// program objects only: engine bookkeeping cells are not program memory
	return o.Tracked
}

// orderedAfterWrite: the last write to the cell happens-before p's current point.
func (r *RaceMon) orderedAfterWrite(pa *Path, p int, m *cellMon, vc []*Term) *Term {
	B := r.e.B
	wp := pa.Load(r.e, m.wProc)
	wc := pa.Load(r.e, m.wClk)
	ok := B.Eq(wp, B.BV(vcPid, 0)) // never written
	for q := 0; q < r.P; q++ {
		isQ := B.Eq(wp, B.BV(vcPid, uint64(q+1)))
		if isQ.IsFalse() {
			continue
		}
		if q == p {
			ok = B.Or(ok, isQ)
			continue
		}
		ok = B.Or(ok, B.And(isQ, B.Ule(wc, vc[q])))
	}
	return ok
}

// Read checks and records a read of one cell by the current process.
func (r *RaceMon) Read(pa *Path, addr int, cond *Term) {
	if pa.Cur == nil || !r.tracked(addr) {
		return
	}
	B := r.e.B
	p := pa.Cur.Pid
	m := r.mon(addr)
	vc := r.clock(pa, p)
	r.Count++
	bad := B.And(cond, B.Not(r.orderedAfterWrite(pa, p, m, vc)))
	if !bad.IsFalse() {
		r.e.RaiseFlag(pa, "C12", bad)
		r.e.RaceSites[r.site(pa, addr, "read")] = true
	}
	if m.r[p] == 0 {
		m.r[p] = r.e.newObj([]int{vcW}, ObjPlain, fmt.Sprintf("rclk%d@%d", p, addr)).Base
	}
	pa.Store(r.e, m.r[p], B.Ite(cond, vc[p], pa.Load(r.e, m.r[p])))
}

// Write checks and records a write.
func (r *RaceMon) Write(pa *Path, addr int, cond *Term) {
	if pa.Cur == nil || !r.tracked(addr) {
		return
	}
	B := r.e.B
	p := pa.Cur.Pid
	m := r.mon(addr)
	vc := r.clock(pa, p)
	r.Count++
	ok := r.orderedAfterWrite(pa, p, m, vc)
	for q := 0; q < r.P; q++ {
		if q == p || m.r[q] == 0 {
			continue
		}
		ok = B.And(ok, B.Ule(pa.Load(r.e, m.r[q]), vc[q]))
	}
	bad := B.And(cond, B.Not(ok))
	if !bad.IsFalse() {
		r.e.RaiseFlag(pa, "C12", bad)
		r.e.RaceSites[r.site(pa, addr, "write")] = true
	}
	pa.Store(r.e, m.wProc, B.Ite(cond, B.BV(vcPid, uint64(p+1)), pa.Load(r.e, m.wProc)))
	pa.Store(r.e, m.wClk, B.Ite(cond, vc[p], pa.Load(r.e, m.wClk)))
}

func (r *RaceMon) site(pa *Path, addr int, kind string) string {
	o := r.e.ObjAt(uint64(addr))
	fn := "?"
	if pa.Cur != nil && len(pa.Cur.Frames) > 0 {
		fr := pa.Cur.top()
		fn = fr.Fn.String()
		if fr.PC >= 0 && fr.PC < len(fr.Block.Instrs) {
			if pos := fr.Block.Instrs[fr.PC].Pos(); pos.IsValid() && r.e.P.Fset != nil {
				fn += " " + r.e.P.Fset.Position(pos).String()
			}
		}
	}
	return fmt.Sprintf("%s of %s+%d in %s", kind, o.Label, addr-o.Base, fn)
}

// Leq: the clock stored under key is componentwise <= p's current clock
// (everything released under key happens-before p's current point).
func (r *RaceMon) Leq(pa *Path, key string, p int) *Term {
	B := r.e.B
	vc := r.clock(pa, p)
	cs := r.snap(key)
	ok := B.True
	for q := range vc {
		ok = B.And(ok, B.Ule(pa.Load(r.e, cs[q]), vc[q]))
	}
	return ok
}

// Snapshot stores p's clock under key (no tick).
func (r *RaceMon) Snapshot(pa *Path, p int, key string) { r.Release(pa, p, key, nil) }
