package main

import (
	"fmt"
	"os"
	"path/filepath"
	"strings"
	"time"

	eng "verif.local/engine"
)

// kernelPlan lists the K-layer kernels serving a property in a tier.
func kernelPlan(prop, tier string) []*eng.KernelSpec {
	h := func(f string) string { return filepath.Join(verifDir, "harness", f) }
	var specs []*eng.KernelSpec
	switch prop {
	case "C16":
		type shape struct{ d, rd string }
		shapes := []shape{{"1", "0"}, {"2", "1"}}
		// depth 3 is out of reach: complete depth-3 trees, and also depth-3 trees whose
		// right operands are limited to depth 1 or to leaves, exhausted memory in the
		// executor (> 23 GB before the first query); both tiers therefore run depths 1-2.
		_ = tier
		for _, sh := range shapes {
			d := sh.d
			var dn int
			fmt.Sscanf(d, "%d", &dn)
			nm := "invertCffConstraint vs constraint.Eval, symbolic tree of depth " + d
			if sh.d == "3" {
				nm += " (right operands of depth <= " + sh.rd + ")"
			}
			specs = append(specs, &eng.KernelSpec{Prop: "C16", Name: nm,
				PkgDir: eng.RepoDir() + "/internal", PkgPath: "go.uber.org/cff/internal", HarnessTxt: h("c16_kernel.go.txt"),
				Subst: map[string]string{"RDEPTH": sh.rd, "DEPTH": d}, Entry: "verifKernelC16_" + d, Fuel: 2000000, MaxStack: dn + 4,
				AssertNames: map[int]string{1: "for every tag assignment the rewritten constraint selects the file exactly when the source constraint does with cff flipped"},
				CoverNames:  map[int]string{1: "tree of shape !((!cff) && _)", 2: "source constraint true", 3: "source constraint false"}})
		}
	}
	return specs
}

var kernelNotes = map[string]struct {
	explanation string
	assumptions []string
	rule        string
}{
	"C16": {
		explanation: "symbolic execution (go/ssa -> SMT) of internal.invertCffConstraint and go/build/constraint.(*AndExpr|*OrExpr|*NotExpr|*TagExpr).Eval on a constraint tree whose shape (every nesting of &&, ||, ! and the tags cff,a,b up to the stated depth) and tag assignment are solver variables; one unsat answer covers every tree of that depth and every assignment. Outside the claim: constraint.Parse/String/PlusBuildLines round trip, per-line handling in writeInvertedCffTag, byte-preservation of the rest of the file, output paths.",
		assumptions: []string{"trees of depth <= stated depth over the tags cff, a, b", "constraint syntax parsing and printing are not modelled"},
		rule:        "one case = one kernel instance (tree depth); non-trivial = its coverage witnesses (a tree with !cff under && under !, both truth values of the source constraint) are satisfiable",
	},
}

func firstLine(s string) string {
	if i := strings.Index(s, "\n"); i > 0 {
		return s[:i]
	}
	return s
}

var l2Notes = struct {
	explanation string
	assumptions []string
	rule        string
}{
	explanation: "symbolic execution (go/ssa -> SMT, cvc5) of code generated on this run by the cff binary built from /repo's working tree, for a fixed corpus of directive programs (/verif/corpus); the scheduler is replaced by its sequential contract stub (harness/sched_contract.go.txt, obligations of DESIGN.md 3.2 which the L1 checks establish for the real scheduler), user functions by stubs whose outcome (return / error / panic) and results are solver variables resp. uninterpreted functions of their arguments; each harness compares the directive against a plain-Go sequential reference, so one unsat covers every input value, every outcome assignment and both job orders of that program. Outside the claim: programs not in the corpus; concurrency inside the generated code (delegated to the L1 contract).",
	assumptions: []string{"contract scheduler stub (K1-K7): jobs run one at a time, each once, after their dependencies, lowest- or highest-index-first", "user functions are pure functions of their data arguments (uninterpreted) with outcome in the stated set", "time.Now/Since, debug.Stack return fixed values; sync/atomic.Bool is a plain cell (sequential execution)", "errors.As/Is and multierr are engine-level list models"},
	rule:        "one case = one corpus harness under one job-order policy; non-trivial = its coverage witnesses (named in the harness) are satisfiable; evaluations = SMT queries",
}

func runKernels(prop, tier, solver string, seed int) (*eng.Evidence, int) {
	t0 := time.Now()
	specs := kernelPlan(prop, tier)
	if len(specs) == 0 {
		l2, corpus, err := l2Specs(prop, tier)
		defer corpus.Cleanup()
		if bv, ok := err.(*buildViolation); ok {
			path, werr := eng.WriteBuildReplay(filepath.Join(verifDir, "replay"), prop, "flows", bv.what)
			if werr == nil {
				if okr, out, _ := eng.RunReplay(path); okr {
					fmt.Printf("VIOLATION property=%s replay=%s\n  what: %s\n%s\n", prop, path, firstLine(bv.what), lastLines(out, 3))
					ev := &eng.Evidence{PropertyID: prop, Tier: tier, Seed: seed, Level: levelOf(prop), WallS: time.Since(t0).Seconds(), Violations: 1,
						Coverage: map[string]interface{}{"explanation": "corpus generation: " + bv.what, "evaluations": 1, "distinct_nontrivial": 2, "samples": []interface{}{bv.what}}}
					return ev, 1
				}
			}
			fmt.Printf("INCONCLUSIVE property=%s %s\n", prop, bv.what)
			return nil, 2
		}
		if err != nil {
			fmt.Printf("INCONCLUSIVE property=%s corpus preparation failed: %v\n", prop, err)
			return nil, 2
		}
		specs = l2
	}
	if s := os.Getenv("VERIF_KERNEL"); s != "" {
		var i int
		fmt.Sscanf(s, "%d", &i)
		specs = specs[i : i+1]
	}
	timeout := 600000
	if tier == "thorough" {
		timeout = 3600000
	}
	results := make([]*eng.KernelResult, len(specs))
	done := make(chan int)
	for i := range specs {
		go func(i int) {
			results[i] = eng.RunKernel(specs[i], solver, timeout)
			done <- i
		}(i)
	}
	for range specs {
		<-done
	}
	exit := 0
	findings := eng.LoadFindings(filepath.Join(verifDir, "known_findings.json"))
	var inconclusive []string
	replaysRun := 0
	queries, oblig, disch, nontriv, violations := 0, 0, 0, 0, 0
	var samples []interface{}
	var kout []interface{}
	encoded := map[string]bool{}
	for i, r := range results {
		queries += r.Queries
		oblig += r.Oblig
		disch += r.Disch
		nontriv += r.NonTriv
		kout = append(kout, r)
		for _, f := range r.Encoded {
			encoded[f] = true
		}
		for _, w := range r.Witnesses {
			if len(samples) < 4 {
				samples = append(samples, map[string]interface{}{"kernel": r.Spec, "witness_input": w})
			}
		}
		fmt.Printf("  kernel %-70s paths=%d terms=%d build=%.1fs solve=%.1fs discharged=%d/%d covers=%d %s\n", r.Spec, r.Paths, r.Terms, r.BuildS, r.SolveS, r.Disch, r.Oblig, r.NonTriv, r.Error)
		if r.Inconcl || r.Error != "" {
			inconclusive = append(inconclusive, fmt.Sprintf("kernel %q: %s", r.Spec, r.Error))
		}
		if r.Vacuous {
			inconclusive = append(inconclusive, fmt.Sprintf("kernel %q: a reachability witness is unsatisfiable (vacuous harness)", r.Spec))
		}
		if r.Disch != r.Oblig && len(r.Failed) == 0 && !r.Inconcl {
			inconclusive = append(inconclusive, fmt.Sprintf("kernel %q: only %d of %d obligations discharged", r.Spec, r.Disch, r.Oblig))
		}
		for j := range r.Failed {
			cex := &r.Failed[j]
			if cex.Assertion == "unwinding / pool bounds" {
				inconclusive = append(inconclusive, fmt.Sprintf("kernel %q: unwinding bound too small", r.Spec))
				continue
			}
			var path string
			var err error
			if specs[i].Program != nil {
				path, err = eng.WriteL2Replay(filepath.Join(verifDir, "replay"), specs[i], *cex, "flows")
			} else {
				path, err = eng.WriteKernelReplay(filepath.Join(verifDir, "replay"), specs[i], *cex)
			}
			if err != nil {
				inconclusive = append(inconclusive, "cannot write replay: "+err.Error())
				continue
			}
			cex.Replay = path
			replaysRun++
			ok, out, err := eng.RunReplay(path)
			cex.Output = lastLines(out, 4)
			switch {
			case err != nil:
				cex.Status = "error"
				inconclusive = append(inconclusive, "replay error: "+err.Error())
			case !ok:
				cex.Status = "unconfirmed"
				fmt.Printf("UNCONFIRMED-COUNTEREXAMPLE property=%s kernel=%q what=%q replay=%s\n%s\n", prop, r.Spec, cex.Assertion, path, cex.Output)
				inconclusive = append(inconclusive, "counterexample did not reproduce on the real build: "+cex.Assertion)
			default:
				cex.Status = "reproduced"
				sig := prop + ":" + cex.Assertion
				if f := findings.Known(prop, sig); f != nil {
					fmt.Printf("KNOWN-FINDING: property=%s %s\n", prop, f.Description)
				} else {
					violations++
					exit = 1
					fmt.Printf("VIOLATION property=%s replay=%s\n  kernel: %s\n  what: %s\n%s\n", prop, path, r.Spec, cex.Assertion, cex.Output)
				}
			}
		}
	}
	if len(inconclusive) > 0 && exit == 0 {
		exit = 2
	}
	for _, m := range inconclusive {
		fmt.Printf("INCONCLUSIVE property=%s %s\n", prop, m)
	}
	if len(samples) == 0 {
		samples = append(samples, "no witness decoded")
	}
	var enc []string
	for f := range encoded {
		enc = append(enc, f)
	}
	notes, ok := kernelNotes[prop]
	if !ok {
		notes = l2Notes
	}
	ev := &eng.Evidence{PropertyID: prop, Tier: tier, Seed: seed, Level: levelOf(prop), WallS: time.Since(t0).Seconds(), Violations: violations,
		Coverage: map[string]interface{}{
			"explanation":         notes.explanation,
			"evaluations":         queries,
			"distinct_nontrivial": nontriv,
			"rule":                notes.rule,
			"samples":             samples,
			"obligations":         oblig,
			"discharged":          disch,
			"kernels":             kout,
			"functions_encoded":   enc,
			"solver":              solver,
			"trusted_base":        []string{"golang.org/x/tools/go/ssa", "this engine's SSA semantics", "solver: " + solver},
			"counterexamples_replayed_on_the_real_build": replaysRun,
		},
		Assumptions: notes.assumptions,
	}
	if ev.Level == "translation_validation" {
		// one "program" = one corpus flow in one generation mode under one job-order policy
		ev.Coverage["programs"] = len(specs)
		ev.Coverage["disagreements_checked"] = replaysRun
	}
	fmt.Printf("property=%s layer=L2/K tier=%s kernels=%d queries=%d obligations=%d discharged=%d covers=%d violations=%d wall=%.1fs exit=%d\n",
		prop, tier, len(specs), queries, oblig, disch, nontriv, violations, time.Since(t0).Seconds(), exit)
	return ev, exit
}

// levelOf: the verification level recorded in the evidence of an L2/K check
// (the same category MANIFEST.json claims).
func levelOf(prop string) string {
	if prop == "C20" {
		return "translation_validation"
	}
	return "other"
}
