package main

import "fmt"

func l1probe() { fmt.Println("probe removed; use VERIF_CUBE=<id> vcheck <prop>") }
