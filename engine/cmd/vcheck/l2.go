package main

import (
	"fmt"
	"path/filepath"
	"strings"

	eng "verif.local/engine"
)

// buildViolation: the generator accepted a corpus program of this property
// but its output does not compile.
type buildViolation struct{ prop, what string }

func (b *buildViolation) Error() string { return b.what }

type l2Prog struct {
	noSym  bool   // skip the solver-chosen job order (programs with many jobs: measured too slow)
	src    string // corpus source file (without .go) holding the directive
	entry  string
	name   string
	assert map[int]string
	cover  map[int]string
}

// l2Plan: corpus harnesses serving a property.
func l2Plan(prop, tier string) []l2Prog {
	var ps []l2Prog
	srcOf := map[string]string{"f02": "f01", "f10": "f06", "f11": "f07", "f08n": "f04", "f01": "f01", "fm1": "f01", "f03": "f02", "f04": "f02", "f05": "f02", "f06": "f05", "f07": "f05", "f08": "f04",
		"p01": "f03", "p02": "f03", "p03": "f03", "p04": "f03", "p05": "f04", "p06": "f05", "p07": "f09", "p08": "f08", "p09": "f08",
		"p10": "f10", "p11": "f10", "p12": "f10", "f12": "f11", "f13": "f11", "p13": "f11"}
	srcOfEntry := map[string]string{"verifHarness_f10_fail": "f06"}
	add := func(entry, name string, as, cs map[int]string) {
		key := strings.TrimPrefix(entry, "verifHarness_")
		if i := strings.Index(key, "_"); i > 0 {
			key = key[:i]
		}
		src := srcOf[key]
		if s, ok := srcOfEntry[entry]; ok {
			src = s
		}
		ps = append(ps, l2Prog{src: src, entry: entry, name: name, assert: as, cover: cs,
			noSym: key == "p02" || key == "p03" || key == "p07" || key == "p04"})
	}
	f01ok := func() {
		add("verifHarness_f01_ok", "Flow01 (3 tasks, fan-in, listed out of order), all tasks succeed",
			map[int]string{1: "flow returns nil", 2: "Results target holds the provider's value", 3: "every task called exactly once", 4: "every parameter is the value returned by its provider"},
			map[int]string{1: "result differs from the pre-value"})
	}
	f01fail := func() {
		add("verifHarness_f01_fail", "Flow01, every task may fail or panic",
			map[int]string{1: "nil iff nothing failed", 2: "results on success", 3: "Results untouched on failure", 4: "PanicError carries the panic value", 5: "returned error is the failing task's error", 6: "call counts: nothing twice, dependents of a failure not run"},
			map[int]string{2: "dependent skipped", 3: "a task panicked", 4: "a task returned an error"})
	}
	f03 := func() {
		add("verifHarness_f03", "Flow03: predicate (own input) gating a task; predicate {true,false,panic} x task {ok,err,panic}",
			map[int]string{1: "nil iff reference did not fail", 2: "result equals reference (zero value through a false predicate)", 3: "consumer of the gated output runs once", 4: "consumer receives the zero value when the predicate is false", 5: "Results untouched on failure", 6: "error is the task's error / PanicError value", 7: "predicate evaluated exactly once", 8: "task runs when predicate is true", 9: "task never called when predicate false or panicked", 10: "predicate receives its provider's value", 11: "predicate evaluated before its task"},
			map[int]string{1: "predicate false, flow succeeds", 2: "predicate true, flow succeeds", 3: "predicate panicked"})
	}
	f04 := func() {
		add("verifHarness_f04", "Flow04: FallbackWith on a failing/panicking task",
			map[int]string{1: "nil iff downstream did not fail", 2: "result equals reference using fallback only on failure", 3: "Results untouched on failure", 4: "error identity", 5: "each task called once", 6: "consumer receives provider or fallback value"},
			map[int]string{1: "fallback used", 2: "fallback not used"})
	}
	f05 := func() {
		add("verifHarness_f05", "Flow05: predicate with context mid-graph plus FallbackWith",
			map[int]string{1: "nil iff reference did not fail", 2: "result equals reference", 3: "failure path", 4: "predicate evaluated once", 5: "predicate receives its provider's value", 6: "nothing downstream of a failure runs"},
			map[int]string{1: "fallback value reaches Results", 2: "predicate true"})
	}
	p01 := func() {
		add("verifHarness_p01", "Par01: Parallel Task/Tasks (4 signatures), symbolic ContinueOnError value, any subset fails or panics",
			map[int]string{1: "nil iff nothing failed", 2: "every task exactly once when nothing fails", 3: "nothing runs twice", 4: "ContinueOnError: every task runs", 5: "ContinueOnError: one error entry per failure", 6: "ContinueOnError: entries are the tasks' own errors / PanicErrors", 7: "fail-fast: the error is a failed task's error or its PanicError value"},
			map[int]string{1: "continue-on-error with two failures", 2: "fail-fast with one failure", 3: "no failure"})
	}
	p02 := func() {
		add("verifHarness_p02", "Par02: Slice(index, elem) + SliceEnd, symbolic length 0..3 (incl. nil)",
			map[int]string{1: "nil iff no element failed and the End hook succeeded", 2: "element function called once per element", 3: "End hook called once", 4: "every (i, s[i]) seen exactly once", 5: "End hook after every element call", 6: "End hook never after a failed element", 7: "ContinueOnError: all elements run", 8: "ContinueOnError: one entry per failure", 9: "no extra calls"},
			map[int]string{1: "three elements, no failure", 2: "empty/nil slice", 3: "two elements, one failure, continue"})
	}
	p04 := func() {
		add("verifHarness_p04", "Par04: Slice under ContinueOnError(b), b symbolic, symbolic length 0..3, any subset of elements fails or panics",
			map[int]string{1: "nil iff no element failed", 2: "ContinueOnError(true): every element runs", 3: "ContinueOnError(true): one entry per failure", 4: "no failure: every element runs", 5: "no extra calls"},
			map[int]string{1: "three elements, two failures, continue", 2: "two elements, one failure, fail-fast"})
	}
	p07 := func() {
		add("verifHarness_p07", "Par07: Slice without index parameter + SliceEnd (context), symbolic length 0..2",
			map[int]string{1: "nil iff no element failed", 2: "element function once per element", 3: "End hook exactly once", 4: "End hook after every element call", 5: "End hook never after a failed/panicked element"},
			map[int]string{1: "two elements, no failure", 2: "an element panicked"})
	}
	p08 := func() {
		add("verifHarness_p08", "Par08: Map(k, v) + MapEnd, symbolic map of 0..2 entries (incl. nil), solver-chosen iteration order",
			map[int]string{1: "nil iff no entry failed and the End hook succeeded", 2: "map function once per entry", 3: "End hook exactly once", 4: "every (k, m[k]) seen exactly once", 5: "End hook after every entry call", 6: "End hook never after a failed entry", 7: "no extra calls"},
			map[int]string{1: "two entries, no failure", 2: "empty/nil map", 3: "two entries, one failure"})
	}
	p09 := func() {
		add("verifHarness_p09", "Par09: Map with context under ContinueOnError(b) + Task, symbolic map of 0..2 entries",
			map[int]string{1: "nil iff no entry failed", 2: "every entry processed (no failure, or continue)", 3: "the Task runs", 4: "every (k, m[k]) exactly once"},
			map[int]string{1: "two entries", 2: "two failures under continue"})
	}
	p03 := func() {
		add("verifHarness_p03", "Par03: Slice without index (0..3) + Slice with context (0..2) + Task",
			map[int]string{1: "nil iff nothing failed", 2: "call counts equal the slice lengths", 3: "every element of the no-index slice is delivered", 4: "every (i, s[i]) of the indexed slice exactly once"},
			map[int]string{1: "lengths 3 and 2"})
	}
	f08 := func() {
		add("verifHarness_f08", "Flow08: instrumented flow (fallback task, predicate-gated task) with an EmitterStack of two recorders",
			map[int]string{1: "exactly one of FlowSuccess/FlowError", 2: "exactly one FlowDone", 3: "Success iff nil", 4: "FlowError carries the returned error", 5: "Done after Success/Error", 6: "exactly one outcome event for an invoked task", 7: "failures of a fallback task are reported as recovered", 8: "exactly one TaskDone", 9: "outcome event carries the task's error / panic value", 10: "one outcome event for the gated task when invoked", 11: "one TaskDone when invoked", 12: "no TaskSkipped for an invoked task", 13: "no events for a task that was not invoked (except Skipped)", 14: "TaskSkipped exactly once for a non-invoked task when the flow returns nil", 15: "FlowDone is the last event"},
			map[int]string{1: "predicate false and flow succeeds", 2: "flow fails", 3: "t1 panicked and was recovered"})
	}
	p05 := func() {
		add("verifHarness_p05", "Par05: instrumented parallel, any subset fails or panics",
			map[int]string{1: "exactly one of ParallelSuccess/ParallelError", 2: "exactly one ParallelDone", 3: "Success iff nil", 4: "ParallelError carries the returned error", 5: "one outcome event per invoked task", 6: "one TaskDone per invoked task", 7: "no events for a task that did not run"},
			map[int]string{1: "success", 2: "a task panicked"})
	}
	f06 := func() {
		add("verifHarness_f06", "Flow06: side effects in every argument position, user identifiers named sched/emitter/tasks/task0/v1/flowInfo",
			map[int]string{1: "flow result equals reference", 2: "every argument expression evaluated exactly once", 3: "arguments evaluated in source order", 4: "all arguments evaluated before the first task", 5: "Params value reaches the task", 6: "Concurrency argument reaches the scheduler"},
			map[int]string{1: "fallback used"})
	}
	f07 := func() {
		add("verifHarness_f07", "Flow07: argument expression mentions an enclosing variable named err",
			map[int]string{1: "flow succeeds", 2: "the task receives the value computed from the user's err variable", 3: "result equals reference"},
			map[int]string{})
	}
	p06 := func() {
		add("verifHarness_p06", "Par06: side effects in Parallel arguments (ctx, Concurrency, ContinueOnError, Slice collection)",
			map[int]string{1: "succeeds", 2: "every argument expression evaluated exactly once", 3: "source order", 4: "before the first element call", 5: "Concurrency argument reaches the scheduler", 6: "every element processed"},
			map[int]string{1: "two elements"})
	}
	f10 := func() {
		add("verifHarness_f10", "Flow10: gated task whose provider's task serial equals its predicate's serial (first flow of a file)",
			map[int]string{1: "flow returns nil", 2: "Results equal the reference", 3: "predicate and ungated tasks exactly once", 4: "gated task runs when the predicate is true", 5: "predicate evaluated before its task", 6: "gated task not called when the predicate is false"},
			map[int]string{1: "predicate true", 2: "predicate false"})
	}
	f11 := func() {
		add("verifHarness_f11", "Flow11: predicate or gated task panics, also with a value of an uncomparable type",
			map[int]string{1: "nil iff nothing panicked", 2: "errors.As yields a *cff.PanicError", 3: "Results untouched", 4: "result equals reference"},
			map[int]string{1: "predicate panicked", 2: "task panicked", 3: "success through a true predicate"})
	}
	f08n := func() {
		add("verifHarness_f08n", "Flow08 run twice with two outer EmitterStacks sharing one nested 3-emitter stack",
			map[int]string{1: "first run succeeds", 2: "outer emitter A saw its own run", 3: "outer emitter B saw nothing of A's run", 4: "second run succeeds", 5: "A unaffected by B's run", 6: "B saw its own run", 7: "shared base saw both runs", 8: "task events delivered once to each outer emitter"},
			map[int]string{1: "equal results"})
	}
	f02ok := func() {
		add("verifHarness_f02_ok", "Flow02 (multi-output task, two Results, Invoke sink, Concurrency(2)), all tasks succeed",
			map[int]string{1: "flow returns nil", 2: "both Results hold the reference values", 3: "every task exactly once", 4: "parameters are the providers' values", 5: "Concurrency(2) reaches the scheduler", 6: "one job per task"},
			map[int]string{1: "non-zero result"})
	}
	f02fail := func() {
		add("verifHarness_f02_fail", "Flow02 with every task allowed to fail or panic (early return with siblings in flight)",
			map[int]string{}, map[int]string{1: "flow fails", 2: "flow succeeds"})
	}
	p10 := func() {
		add("verifHarness_p10", "Par10: Map with context + MapEnd(func(ctx) error), 0..2 entries; the End hook may fail or panic",
			map[int]string{1: "nil iff no entry panicked and the End hook neither failed nor panicked", 2: "map function once per entry", 3: "End hook exactly once", 4: "End hook after every entry call", 5: "End hook never after a failed entry"},
			map[int]string{1: "two entries, End hook panics", 2: "empty map, End hook fails"})
	}
	p11 := func() {
		add("verifHarness_p11", "Par11: Slice + SliceEnd(func(ctx) error), length 0..2; the End hook may fail or panic",
			map[int]string{1: "nil iff no element panicked and the End hook neither failed nor panicked", 2: "element function once per element", 3: "End hook exactly once", 4: "End hook after every element call", 5: "End hook never after a failed element"},
			map[int]string{1: "two elements, End hook panics", 2: "an element panics"})
	}
	p12 := func() {
		add("verifHarness_p12", "Par12: Map + MapEnd(func()), 0..2 entries; the End hook may panic",
			map[int]string{1: "nil iff no entry failed and the End hook did not panic", 2: "map function once per entry", 3: "End hook exactly once", 5: "End hook never after a failed entry"},
			map[int]string{1: "two entries, End hook panics"})
	}
	f12 := func() {
		add("verifHarness_f12", "Flow12: Params/Results arguments are bare identifiers / &identifiers named v1, v3, ctx (like generated variables)",
			map[int]string{1: "flow returns nil", 2: "the caller's Results variable holds the provider's value", 3: "the task receives the caller's Params value", 4: "each task once"},
			map[int]string{1: "non-zero result"})
	}
	f13 := func() {
		add("verifHarness_f13", "Flow13: a function-literal task assigns to the enclosing function's variable named err",
			map[int]string{1: "panic in the literal is reported", 2: "the write reaches the enclosing err; the flow itself returns nil", 3: "Results hold the literal's value", 4: "inner function called once"},
			map[int]string{1: "inner function returned an error", 2: "inner function panicked"})
	}
	p13 := func() {
		add("verifHarness_p13", "Par13: function literals (Task, Slice) in Parallel write to enclosing variables named err and n",
			map[int]string{1: "the Task literal's write reaches the enclosing err; Parallel returns nil", 2: "every index delivered to the Slice literal exactly once", 3: "call counts"},
			map[int]string{1: "error stored, two elements"})
	}
	f10fail := func() {
		add("verifHarness_f10_fail", "Flow10 with a failing/panicking provider of the predicate-gated task (the predicate does not consume that provider's output)",
			map[int]string{1: "flow fails when the provider fails", 2: "the gated task is never invoked after its provider failed", 3: "Results untouched", 4: "the error is the provider's error", 5: "nil when nothing failed", 6: "provider called once"},
			map[int]string{1: "provider returned an error", 2: "provider panicked"})
	}
	fm1 := func() {
		add("verifHarness_fm1", "FlowM1 (modifier-mode subset: Params, Results, Concurrency(2), plain Tasks incl. multi-output and error-less ones), every task may fail or panic",
			map[int]string{1: "nil iff nothing failed", 2: "Results on success", 3: "every task once on success", 4: "parameters are the providers' values", 5: "Results untouched on failure", 6: "the error is the failing task's error", 7: "dependents of a failed task never run", 8: "Concurrency(2) reaches the scheduler"},
			map[int]string{1: "everything succeeds", 2: "the multi-output task panics", 3: "the last task returns an error"})
	}
	switch prop {
	case "C12":
		f01fail()
		f02fail()
		f03()
		p01()
		p02()
		f08()
	case "C20":
		f01ok()
		f01fail()
		fm1()
		f02ok() // base and source-map only: Invoke is outside the modifier-mode subset
	case "C03":
		f02ok()
	case "C15":
		f06()
		f07()
		p06()
		f12()
		f13()
		p13()
	case "C18":
		f08()
		f08n()
		p05()
	case "C02":
		f01ok()
		f02ok()
		f10()
		f12()
	case "C04":
		f11()
		f01fail()
		f03()
		f04()
		p01()
		p02()
		p04()
		p08()
		p10()
		p11()
		p12()
	case "C07":
		f01fail()
		p01()
		f10fail()
	case "C08":
		p01()
		p04()
	case "C10":
		p01()
		p02()
		p03()
		p07()
		p08()
		p09()
		p10()
		p11()
		p12()
		p13()
	case "C11":
		f03()
		f04()
		f05()
		f10()
	}
	return ps
}

type corpora []*eng.Corpus

func (cs corpora) Cleanup() {
	for _, c := range cs {
		c.Cleanup()
	}
}

// l2Specs builds the kernel specs of a property; C20 runs its programs under
// every generation mode.
func l2Specs(prop, tier string) ([]*eng.KernelSpec, corpora, error) {
	if prop != "C20" {
		s, c, err := l2SpecsMode(prop, tier, "base", nil)
		return s, corpora{c}, err
	}
	var all []*eng.KernelSpec
	var cs corpora
	for _, md := range []struct {
		mode string
		keep []string
	}{{"base", nil}, {"source-map", nil}, {"modifier", []string{"api.go", "f01.go", "h01.go"}}} {
		s, c, err := l2SpecsMode(prop, tier, md.mode, md.keep)
		cs = append(cs, c)
		if err != nil {
			return nil, cs, err
		}
		for _, sp := range s {
			if md.mode == "modifier" && sp.Entry == "verifHarness_f02_ok" {
				continue // Flow02 uses Invoke: outside the modifier-mode subset of C20
			}
			sp.Name = "[genmode=" + md.mode + "] " + sp.Name
			all = append(all, sp)
		}
	}
	return all, cs, nil
}

func l2SpecsMode(prop, tier, mode string, keep []string) ([]*eng.KernelSpec, *eng.Corpus, error) {
	progs := l2Plan(prop, tier)
	if len(progs) == 0 {
		return nil, nil, nil
	}
	corpus, err := eng.PrepareCorpusFiles(filepath.Join(verifDir, "corpus"), []string{"flows"}, mode, false, keep)
	if err != nil {
		return nil, corpus, err
	}
	P, err := corpus.Load(filepath.Join(verifDir, "harness", "sched_contract.go.txt"), "flows")
	if err != nil {
		for _, pr := range progs {
			if pr.src != "" && strings.Contains(err.Error(), pr.src+"_gen.go") {
				return nil, corpus, &buildViolation{prop: prop, what: fmt.Sprintf("cff exited 0 on %s.go but the generated %s_gen.go does not type-check: %v", pr.src, pr.src, err)}
			}
		}
		return nil, corpus, fmt.Errorf("generated corpus does not load/type-check (in a file this property does not own): %v\n%s", err, corpus.GenLog)
	}
	pkg := eng.CorpusMod + "/flows"
	var specs []*eng.KernelSpec
	for _, pr := range progs {
		for pol, polName := range []string{"lowest-index-first", "highest-index-first", "any admissible order (solver choice per step)"} {
			if pol == 2 && pr.noSym && tier != "thorough" {
				continue
			}
			specs = append(specs, &eng.KernelSpec{Prop: prop, Name: pr.name + " [job order: " + polName + "]", Fixed: map[int]int64{9000: int64(pol)}, PkgDir: filepath.Join(corpus.ModDir, "flows"), PkgPath: pkg,
				Entry: pr.entry, Program: P, GenMode: mode, GenKeep: keep, Fuel: 3000000, MaxStack: 40, AssertNames: pr.assert, CoverNames: pr.cover,
				Setup: func(k *eng.Kernel) { eng.InstallL2(k, pkg, prop == "C12") }})
		}
	}
	return specs, corpus, nil
}
