package main

import (
	"fmt"
	"path/filepath"

	eng "verif.local/engine"
)

type l2Prog struct {
	entry  string
	name   string
	assert map[int]string
	cover  map[int]string
}

// l2Plan: corpus harnesses serving a property.
func l2Plan(prop, tier string) []l2Prog {
	var ps []l2Prog
	add := func(entry, name string, as, cs map[int]string) {
		ps = append(ps, l2Prog{entry: entry, name: name, assert: as, cover: cs})
	}
	switch prop {
	case "C02":
		add("verifHarness_f01_ok", "Flow01 (3 tasks, fan-in, listed out of order), all tasks succeed",
			map[int]string{1: "flow returns nil", 2: "Results target holds the provider's value", 3: "every task called exactly once", 4: "every parameter is the value returned by its provider"},
			map[int]string{1: "result differs from the pre-value"})
	case "C04", "C07":
		add("verifHarness_f01_fail", "Flow01, every task may fail or panic",
			map[int]string{1: "nil iff nothing failed", 2: "results on success", 3: "Results untouched on failure", 4: "PanicError carries the panic value", 5: "returned error is the failing task's error", 6: "call counts"},
			map[int]string{2: "dependent skipped", 3: "a task panicked", 4: "a task returned an error"})
	}
	return ps
}

func l2Specs(prop, tier string) ([]*eng.KernelSpec, *eng.Corpus, error) {
	progs := l2Plan(prop, tier)
	if len(progs) == 0 {
		return nil, nil, nil
	}
	corpus, err := eng.PrepareCorpus(filepath.Join(verifDir, "corpus"), []string{"flows"}, "base", false)
	if err != nil {
		return nil, corpus, err
	}
	P, err := corpus.Load(filepath.Join(verifDir, "harness", "sched_contract.go.txt"), "flows")
	if err != nil {
		return nil, corpus, fmt.Errorf("generated corpus does not load/type-check: %v\n%s", err, corpus.GenLog)
	}
	pkg := eng.CorpusMod + "/flows"
	var specs []*eng.KernelSpec
	for _, pr := range progs {
		for pol, polName := range []string{"lowest-index-first", "highest-index-first"} {
			specs = append(specs, &eng.KernelSpec{Prop: prop, Name: pr.name + " [job order: " + polName + "]", Fixed: map[int]int64{9000: int64(pol)}, PkgDir: filepath.Join(corpus.ModDir, "flows"), PkgPath: pkg,
				Entry: pr.entry, Program: P, Fuel: 3000000, MaxStack: 40, AssertNames: pr.assert, CoverNames: pr.cover,
				Setup: func(k *eng.Kernel) { eng.InstallL2(k, pkg) }})
		}
	}
	return specs, corpus, nil
}
