package main

import (
	"fmt"
	"os"
	"sort"
	"time"

	eng "verif.local/engine"
)

func main() {
	if len(os.Args) > 1 && os.Args[1] == "l1probe" {
		l1probe()
		return
	}
	fmt.Println("usage")
}

func l1probe() {
	cubes := []*eng.Cube{
		{ID: "a", Deps: [][]int{{}}, N: 1, Outcomes: []int{eng.OutOK, eng.OutErr}},
		{ID: "b", Deps: [][]int{{}, {0}}, N: 1, Outcomes: []int{eng.OutOK, eng.OutErr}},
		{ID: "c", Deps: [][]int{{}, {0}, {0, 1}}, N: 2, Outcomes: []int{eng.OutOK, eng.OutErr}},
		{ID: "d", Deps: [][]int{{}, {}, {}, {}}, N: 2, Outcomes: []int{eng.OutOK, eng.OutErr}},
		{ID: "e", Deps: [][]int{{}, {}}, N: 1, Emitter: true, Ticks: 2, Outcomes: []int{eng.OutOK}},
		{ID: "f", Deps: [][]int{{}, {}, {}}, N: 2, Outcomes: []int{eng.OutOK, eng.OutErr}},
	}
	t0 := time.Now()
	src := eng.HarnessSource(cubes)
	P, err := eng.Load("/repo/scheduler", map[string][]byte{"/repo/scheduler/zz_verif_harness.go": []byte(src)}, "", ".")
	if err != nil {
		fmt.Println("load:", err)
		os.Exit(2)
	}
	fmt.Println("loaded in", time.Since(t0))
	for _, c := range cubes {
		if only := os.Getenv("ONLY"); only != "" && only != c.ID {
			continue
		}
		runCube(P, c)
	}
}

func runCube(P *eng.Program, c *eng.Cube) {
	defer func() {
		if r := recover(); r != nil {
			if ee, ok := r.(eng.EngineError); ok {
				fmt.Println("ENGINE ERROR:", ee.Msg)
				return
			}
			panic(r)
		}
	}()
	t0 := time.Now()
	l := eng.NewL1(P, c)
	if os.Getenv("PROFILE") != "" {
		l.E.Profile = map[string]int{}
		l.E.ProfileN = map[string]int{}
	}
	l.Build()
	if l.E.Profile != nil {
		type kv struct {
			k string
			v int
		}
		var kvs []kv
		for k, v := range l.E.Profile {
			kvs = append(kvs, kv{k, v})
		}
		sort.Slice(kvs, func(i, j int) bool { return kvs[i].v > kvs[j].v })
		for i := 0; i < 30 && i < len(kvs); i++ {
			fmt.Printf("   %7d terms %5d execs  %s\n", kvs[i].v, l.E.ProfileN[kvs[i].k], kvs[i].k)
		}
	}
	fmt.Printf("cube %s: built in %v, terms=%d procs=%d paths=%d instr=%d\n", c, time.Since(t0), l.E.B.NumTerms(), len(l.S.Procs), l.S.TotalPaths, l.S.TotalInstr)
	fmt.Println("phase counts:", l.E.B.PhaseCount)
	fmt.Println("op counts:", l.E.B.OpCounts())
	if os.Getenv("NOSOLVE") != "" {
		return
	}
	sv, err := eng.NewSolver(l.E.B, "z3-new", 1200000)
	if err != nil {
		panic(err)
	}
	if f := os.Getenv("SMTLOG"); f != "" {
		w, _ := os.Create(f + "." + c.ID + ".smt2")
		sv.Log = w
		defer w.Close()
	}
	defer sv.Close()
	if os.Getenv("COMBINED") != "" {
		t1 := time.Now()
		any := l.E.B.False
		for _, ob := range l.Obligations() {
			if !ob.WantSat {
				any = l.E.B.Or(any, ob.Assert)
			}
		}
		v, _, err := sv.Check(append([]*eng.Term{any}, l.S.Constraints...), nil)
		fmt.Printf("  COMBINED %s %v err=%v\n", v, time.Since(t1), err)
		return
	}
	for _, ob := range l.Obligations() {
		if op := os.Getenv("ONLYPROP"); op != "" && op != ob.Prop {
			continue
		}
		t1 := time.Now()
		as := append([]*eng.Term{ob.Assert}, l.S.Constraints...)
		v, model, err := sv.Check(as, l.ModelTerms())
		fmt.Printf("  [%s] %-70s %s (want sat=%v) %v err=%v\n", ob.Prop, ob.Name, v, ob.WantSat, time.Since(t1), err)
		if v == eng.Sat && !ob.WantSat {
			for _, st := range l.Decode(func(t *eng.Term) uint64 { return model[t.ID] }) {
				fmt.Printf("      t=%d p%d(%s) %s peer=%d\n", st.T, st.Pid, st.Proc, st.What, st.Peer)
			}
			for k, o := range l.Out {
				fmt.Printf("      out_%d=%d\n", k, model[o.ID])
			}
		}
	}
}
