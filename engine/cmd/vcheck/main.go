package main

import (
	"flag"
	"fmt"
	"os"
	"path/filepath"
	"sort"
	"strconv"
	"strings"
	"time"

	eng "verif.local/engine"
)

// verifDir: where harnesses, corpus, evidence and replays live. VERIF_DIR lets a
// background run from a snapshot (vp run) keep its output out of /verif.
var verifDir = func() string {
	if d := os.Getenv("VERIF_DIR"); d != "" {
		return d
	}
	return "/verif"
}()

var l1Props = map[string]bool{"C01": true, "C03": true, "C05": true, "C06": true, "C07": true, "C08": true, "C09": true, "C12": true, "C19": true}

func main() {
	if len(os.Args) < 2 {
		fmt.Println("usage: vcheck <property-id> [--tier quick|thorough] | vcheck replay <path>")
		os.Exit(2)
	}
	if os.Args[1] == "replay" {
		ok, out, err := eng.RunReplay(os.Args[2])
		fmt.Print(out)
		if err != nil {
			fmt.Println("replay error:", err)
			os.Exit(2)
		}
		if ok {
			os.Exit(1)
		}
		os.Exit(0)
	}
	if os.Args[1] == "l1probe" {
		l1probe()
		return
	}
	prop := os.Args[1]
	fs := flag.NewFlagSet("vcheck", flag.ExitOnError)
	tier := fs.String("tier", os.Getenv("VERIF_TIER"), "quick|thorough")
	solver := fs.String("solver", "z3-new", "z3-new|cvc5|z3")
	fs.Parse(os.Args[2:])
	if *tier == "" {
		*tier = "quick"
	}
	seed, _ := strconv.Atoi(os.Getenv("VERIF_SEED"))
	var evs []*eng.Evidence
	exit := 0
	worse := func(x int) {
		// 1 (violation) dominates 2 (inconclusive) dominates 0
		if x == 1 || (x == 2 && exit == 0) {
			exit = x
		}
	}
	ran := false
	layer := os.Getenv("VERIF_LAYER") // debugging aid: restrict to one layer
	if l1Props[prop] && layer != "L2" {
		ev, x := runL1(prop, *tier, *solver, seed)
		evs = append(evs, ev)
		worse(x)
		ran = true
	}
	if (len(kernelPlan(prop, *tier)) > 0 || len(l2Plan(prop, *tier)) > 0) && layer != "L1" {
		ksolver := *solver
		if !solverSet(os.Args[2:]) {
			ksolver = "cvc5" // sequential kernels: cvc5 is markedly faster than z3 on these formulas
		}
		ev, x := runKernels(prop, *tier, ksolver, seed)
		evs = append(evs, ev)
		worse(x)
		ran = true
	}
	if !ran {
		fmt.Printf("INCONCLUSIVE property=%s no check registered\n", prop)
		os.Exit(2)
	}
	ev := mergeEvidence(evs)
	if ev != nil {
		if err := eng.WriteEvidence(filepath.Join(verifDir, "evidence"), ev); err != nil {
			fmt.Println("cannot write evidence:", err)
			os.Exit(2)
		}
	}
	os.Exit(exit)
}

func solverSet(args []string) bool {
	for _, a := range args {
		if strings.HasPrefix(a, "--solver") || strings.HasPrefix(a, "-solver") {
			return true
		}
	}
	return false
}

// mergeEvidence combines the per-layer evidence of one property.
func mergeEvidence(evs []*eng.Evidence) *eng.Evidence {
	var out *eng.Evidence
	for _, ev := range evs {
		if ev == nil {
			continue
		}
		if out == nil {
			out = ev
			continue
		}
		out.WallS += ev.WallS
		out.Violations += ev.Violations
		out.Assumptions = append(out.Assumptions, ev.Assumptions...)
		for k, v := range ev.Coverage {
			switch k {
			case "evaluations", "distinct_nontrivial", "obligations", "discharged", "traces_validated_against_impl":
				a, _ := out.Coverage[k].(int)
				b, _ := v.(int)
				out.Coverage[k] = a + b
			case "samples":
				a, _ := out.Coverage[k].([]interface{})
				b, _ := v.([]interface{})
				out.Coverage[k] = append(a, b...)
			case "explanation", "rule":
				a, _ := out.Coverage[k].(string)
				b, _ := v.(string)
				out.Coverage[k] = a + " || L2/K layer: " + b
			case "functions_encoded":
				out.Coverage["functions_encoded_l2"] = v
			default:
				if _, ok := out.Coverage[k]; !ok {
					out.Coverage[k] = v
				}
			}
		}
	}
	return out
}

func runL1(prop, tier, solver string, seed int) (*eng.Evidence, int) {
	t0 := time.Now()
	timeout := 600000
	if tier == "thorough" {
		timeout = 3600000
	}
	run, P, err := eng.RunL1(prop, tier, solver, timeout)
	if err != nil {
		fmt.Printf("INCONCLUSIVE property=%s load/build failed: %v\n", prop, err)
		return nil, 2
	}
	findings := eng.LoadFindings(filepath.Join(verifDir, "known_findings.json"))
	exit := 0
	queries, discharged, obligations, nontrivial := 0, 0, 0, 0
	var samples []interface{}
	var cubesOut []interface{}
	violations := 0
	replayed := map[string]string{} // signature -> result
	inconclusive := []string{}
	beyond := 0
	for _, r := range run.Cubes {
		queries += r.Queries
		discharged += r.Discharged
		obligations += r.Obligations
		if r.NonTrivial {
			nontrivial++
		}
		cubesOut = append(cubesOut, r)
		if len(samples) < 3 && r.Witness != nil {
			samples = append(samples, map[string]interface{}{"cube": r.Cube, "witness_schedule_all_jobs_ran": r.Witness})
		}
		if r.Inconcl || r.Error != "" {
			inconclusive = append(inconclusive, fmt.Sprintf("cube %s (%s): %s %v", r.ID, r.Cube, r.Error, r.Notes))
		}
		if r.Vacuous {
			inconclusive = append(inconclusive, fmt.Sprintf("cube %s (%s): vacuity witness unsatisfiable", r.ID, r.Cube))
		}
		if r.Beyond != "" {
			fmt.Printf("UNDECIDED property=%s cube %s (%s): %s\n", prop, r.ID, r.Cube, r.Beyond)
			beyond++
			continue
		}
		if r.Discharged != r.Obligations && len(r.Violations) == 0 && !r.Inconcl && r.Hunt == "" {
			inconclusive = append(inconclusive, fmt.Sprintf("cube %s (%s): only %d of %d obligations discharged", r.ID, r.Cube, r.Discharged, r.Obligations))
		}
		for _, v := range r.Violations {
			if v.Prop != prop {
				continue
			}
			if res, seen := replayed[v.Sig]; seen {
				_ = res
				continue
			}
			budget := 30000
			if prop == "C12" {
				budget = 8000 // the race detector reports as soon as the racy pair executes
			}
			path, err := eng.WriteReplayL1(filepath.Join(verifDir, "replay"), v, budget)
			if err != nil {
				inconclusive = append(inconclusive, "cannot write replay: "+err.Error())
				continue
			}
			ok, out, err := eng.RunReplay(path)
			last := lastLines(out, 3)
			switch {
			case err != nil:
				replayed[v.Sig] = "error"
				inconclusive = append(inconclusive, "replay error: "+err.Error())
			case !ok:
				replayed[v.Sig] = "unconfirmed"
				fmt.Printf("UNCONFIRMED-COUNTEREXAMPLE property=%s cube=%s what=%q replay=%s\n%s\n", prop, r.Cube, v.Name, path, last)
				inconclusive = append(inconclusive, "counterexample did not reproduce on the real build: "+v.Name)
			default:
				replayed[v.Sig] = "reproduced"
				if f := findings.Known(prop, v.Sig); f != nil {
					fmt.Printf("KNOWN-FINDING: property=%s %s (%s)\n", prop, f.Description, v.Sig)
				} else {
					violations++
					fmt.Printf("VIOLATION property=%s replay=%s\n", prop, path)
					fmt.Printf("  cube: %s\n  what: %s\n  %s\n", r.Cube, v.Name, last)
					exit = 1
				}
			}
		}
	}
	var defaultLimit *eng.DefaultLimitResult
	if prop == "C03" && os.Getenv("VERIF_CUBE") == "" {
		G := 16
		if tier == "thorough" {
			G = 64
		}
		defaultLimit = eng.RunDefaultLimit(P, G, solver, timeout)
		queries += defaultLimit.Queries
		obligations += defaultLimit.Oblig
		discharged += defaultLimit.Disch
		fmt.Printf("  kernel default limit (GOMAXPROCS in 1..%d): discharged=%d/%d workers modelled=%d %s\n", G, defaultLimit.Disch, defaultLimit.Oblig, defaultLimit.Procs, defaultLimit.Error)
		if defaultLimit.Inconcl {
			inconclusive = append(inconclusive, "default-limit kernel: "+defaultLimit.Error)
		}
		for _, f := range defaultLimit.Failed {
			var g int64
			fmt.Sscanf(f[strings.LastIndex(f, "GOMAXPROCS=")+len("GOMAXPROCS="):], "%d", &g)
			path, _ := eng.WriteReplayDefaultLimit(filepath.Join(verifDir, "replay"), g, f)
			if ok, out, _ := eng.RunReplay(path); ok {
				violations++
				exit = 1
				fmt.Printf("VIOLATION property=C03 replay=%s\n  what: %s\n%s\n", path, f, lastLines(out, 2))
			} else {
				inconclusive = append(inconclusive, "default-limit counterexample did not reproduce: "+f)
			}
			break
		}
	}
	if len(inconclusive) > 0 && exit == 0 {
		exit = 2
	}
	for _, m := range inconclusive {
		fmt.Printf("INCONCLUSIVE property=%s %s\n", prop, m)
	}
	if len(samples) == 0 {
		samples = append(samples, "no witness decoded")
	}
	plan := eng.L1Plan(prop, tier)
	var cubeNames []string
	for _, c := range plan {
		cubeNames = append(cubeNames, c.String())
	}
	sort.Strings(cubeNames)
	ev := &eng.Evidence{PropertyID: prop, Tier: tier, Seed: seed, Level: "model_checking", WallS: time.Since(t0).Seconds(), Violations: violations,
		Coverage: map[string]interface{}{
			"evaluations":                   queries,
			"distinct_nontrivial":           nontrivial,
			"rule":                          "one case = one cube (DAG shape x worker count x error mode x environment family); inside a cube the schedule (every interleaving of caller, scheduler loop, workers, ticker, timer), job outcomes and cancellation instants are solver variables; a cube counts as non-trivial when its reachability witness (all jobs ran and the caller returned, resp. a state report was emitted) is satisfiable; evaluations = SMT queries answered",
			"samples":                       samples,
			"exhaustive":                    false,
			"obligations":                   obligations,
			"discharged":                    discharged,
			"traces_validated_against_impl": len(replayed),
			"explanation":                   "bounded model checking of scheduler/scheduler.go from its go/ssa form under a symbolic scheduler; unsat = holds for every interleaving/outcome of the cube; bounds are the cube list below; step bound K is checked per cube by the completeness obligation (no process enabled after K steps), loops/pools by the unwinding obligation, absence of runtime faults by the fault obligation",
			"solver":                        solver,
			"functions_encoded":             run.Encoded,
			"cubes":                         cubesOut,
			"cube_list":                     cubeNames,
			"load_seconds":                  run.LoadS,
			"replay_results":                replayed,
			"undecided_cubes_outside_claim": beyond,
			"trusted_base":                  trustedBaseL1,
			"default_limit_kernel":          defaultLimit,
		},
		Assumptions: assumptionsL1,
	}
	fmt.Printf("property=%s layer=L1 tier=%s cubes=%d queries=%d obligations=%d discharged=%d nontrivial=%d violations=%d wall=%.1fs exit=%d\n",
		prop, tier, len(run.Cubes), queries, obligations, discharged, nontrivial, violations, time.Since(t0).Seconds(), exit)
	return ev, exit
}

var trustedBaseL1 = []string{
	"golang.org/x/tools/go/ssa construction of the SSA form",
	"this engine's semantics of SSA instructions, channels, select, defer/panic/Goexit",
	"z3 5.1.0 (z3-new)",
	"data-race freedom of the scheduler (only synchronisation operations are interleaving points)",
}

var assumptionsL1 = []string{
	"user job bodies are stubs: start and end are separate events; outcome in the cube's outcome set; at most MaxGoex Goexit outcomes",
	"context = close-only channel with Err()/Done(); cancellation sources: before the call, from a job body, from a timer at any step",
	"time.Ticker = capacity-1 channel fed by an environment process, at most Ticks ticks, none after Stop",
	"container/list is modelled as a bounded FIFO sequence (New/Len/Front/PushBack/Remove); other list API is unsupported",
	"errors.New/errors.Is/multierr.Append are engine-level models (identity, membership, nil-absorbing flattening append)",
	"append growth follows runtime.growslice size classes for small slices; slice lengths in scheduler state bounded by J (checked by the unwinding obligation)",
	"an unbuffered send is handed to the lowest-numbered goroutine parked at a plain receive on that channel (symmetry reduction over identical workers)",
	"runtime faults (nil dereference, index out of range, send on closed channel) are not explored further; their reachability is the separate 'fault' obligation",
}

func lastLines(s string, n int) string {
	ls := strings.Split(strings.TrimSpace(s), "\n")
	if len(ls) > n {
		ls = ls[len(ls)-n:]
	}
	return "  " + strings.Join(ls, "\n  ")
}
