//go:build cff

package flows

import (
	"context"

	"go.uber.org/cff"
)

// Flow11: a predicate-gated task without fallback (panic containment of the
// predicate itself).
func Flow11(ctx context.Context, a A, d *D) error {
	return cff.Flow(ctx,
		cff.Params(a),
		cff.Results(d),
		cff.Task(T1),
		cff.Task(T8, cff.Predicate(P1)),
	)
}
