package flows

import (
	"errors"

	"go.uber.org/cff"
)

// C02/C11: gated task whose provider's serial number equals its predicate's
func verifHarness_f10() {
	ctx := verifNdCtx(false)
	a := A(verifNdInt(1))
	verifAllow("P1", 1)
	var wantD D
	verifRefBegin()
	c := TA(a)
	b, _ := T1(a)
	gate := P1(a)
	if gate {
		wantD, _ = T8(b)
	}
	wantE := T6(c)
	verifRefEnd()
	var d D
	var e E
	err := Flow10(ctx, a, &d, &e)
	verifAssert(err == nil, 1)
	verifAssert(d == wantD && e == wantE, 2)
	verifAssert(verifCallCount("P1") == 1 && verifCallCount("T1") == 1 && verifCallCount("TA") == 1 && verifCallCount("T6") == 1, 3)
	if gate {
		verifAssert(verifCallCount("T8") == 1, 4)
		verifAssert(verifCallSeq("P1", 0) < verifCallSeq("T8", 0), 5)
	} else {
		verifAssert(verifCallCount("T8") == 0, 6)
	}
	verifCover(gate, 1)
	verifCover(!gate, 2)
}

// C04: the predicate (or the task) panics with a value of an uncomparable type
func verifHarness_f11() {
	ctx := verifNdCtx(false)
	a := A(verifNdInt(1))
	pre := D(verifNdInt(2))
	verifAllow("P1", 13) // true/false, panic, panic with an uncomparable value
	verifAllow("T8", 13)
	verifAllow("T1", 1)
	refFail := false
	var want D
	verifRefBegin()
	b, _ := T1(a)
	gate := false
	pp, _ := verifTry(func() { gate = P1(a) })
	if pp {
		refFail = true
	} else if gate {
		tp, _ := verifTry(func() { want, _ = T8(b) })
		if tp {
			refFail = true
		}
	}
	verifRefEnd()
	d := pre
	err := Flow11(ctx, a, &d)
	verifAssert((err == nil) == !refFail, 1)
	if err != nil {
		var pe *cff.PanicError
		verifAssert(errors.As(err, &pe), 2)
		verifAssert(d == pre, 3)
	} else {
		verifAssert(d == want, 4)
	}
	verifCover(pp, 1)
	verifCover(err != nil && !pp, 2)
	verifCover(err == nil && gate, 3)
}
