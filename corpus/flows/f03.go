//go:build cff

package flows

import (
	"context"

	"go.uber.org/cff"
)

// Par01: Task and Tasks of all four supported signatures.
func Par01(ctx context.Context, coe bool) error {
	return cff.Parallel(ctx,
		cff.ContinueOnError(coe),
		cff.Task(R1),
		cff.Tasks(R2, R3),
		cff.Task(R4),
	)
}

// Par02: Slice with index and error, with an End hook that may fail.
func Par02(ctx context.Context, xs []A) error {
	return cff.Parallel(ctx,
		cff.Concurrency(2),
		cff.Slice(X1, xs, cff.SliceEnd(XE)),
	)
}

// Par04: Slice under a symbolic ContinueOnError value.
func Par04(ctx context.Context, xs []A, coe bool) error {
	return cff.Parallel(ctx,
		cff.ContinueOnError(coe),
		cff.Slice(X1, xs),
	)
}

// Par03: Slice without index, a second Slice with context, plus a Task.
func Par03(ctx context.Context, xs []A, ys []A) error {
	return cff.Parallel(ctx,
		cff.Slice(X2, xs),
		cff.Slice(X3, ys),
		cff.Task(R3),
	)
}
