package flows

import (
	"errors"

	"go.uber.org/cff"
	"go.uber.org/multierr"
)

func verifMkSlice(site int) []A {
	switch verifNdInt(site) {
	case 0:
		return nil
	case 1:
		return []A{A(verifNdInt(site + 1))}
	case 2:
		return []A{A(verifNdInt(site + 1)), A(verifNdInt(site + 2))}
	}
	return []A{A(verifNdInt(site + 1)), A(verifNdInt(site + 2)), A(verifNdInt(site + 3))}
}

// verifMkSlice2: as verifMkSlice with at most two elements
func verifMkSlice2(site int) []A {
	switch verifNdInt(site) {
	case 0:
		return nil
	case 1:
		return []A{A(verifNdInt(site + 1))}
	}
	return []A{A(verifNdInt(site + 1)), A(verifNdInt(site + 2))}
}

// C10 / C07 / C08 / C04: Parallel Task+Tasks, fail-fast and ContinueOnError
func verifHarness_p01() {
	ctx := verifNdCtx(false)
	coe := verifNdBool(1)
	verifAllow("R1", 7)
	verifAllow("R2", 7)
	verifAllow("R3", 5)
	verifAllow("R4", 5)
	// reference: independent tasks; record each one's failure
	var e1, e2 error
	var p1, p2, p3, p4 bool
	verifRefBegin()
	p1, _ = verifTry(func() { e1 = R1() })
	p2, _ = verifTry(func() { e2 = R2(ctx) })
	p3, _ = verifTry(func() { R3() })
	p4, _ = verifTry(func() { R4(ctx) })
	verifRefEnd()
	nfail := 0
	for _, f := range []bool{p1 || e1 != nil, p2 || e2 != nil, p3, p4} {
		if f {
			nfail++
		}
	}
	err := Par01(ctx, coe)
	verifAssert((err == nil) == (nfail == 0), 1)
	if nfail == 0 {
		verifAssert(verifCallCount("R1") == 1 && verifCallCount("R2") == 1 && verifCallCount("R3") == 1 && verifCallCount("R4") == 1, 2)
	}
	// nothing runs twice
	verifAssert(verifCallCount("R1") <= 1 && verifCallCount("R2") <= 1 && verifCallCount("R3") <= 1 && verifCallCount("R4") <= 1, 3)
	if coe {
		// everything runs; one entry per failure, each the task's own error or its PanicError
		verifAssert(verifCallCount("R1") == 1 && verifCallCount("R2") == 1 && verifCallCount("R3") == 1 && verifCallCount("R4") == 1, 4)
		parts := multierr.Errors(err)
		verifAssert(len(parts) == nfail, 5)
		n1, n2, npan := 0, 0, 0
		for _, p := range parts {
			var pe *cff.PanicError
			switch {
			case p == verifErrOf("R1"):
				n1++
			case p == verifErrOf("R2"):
				n2++
			case errors.As(p, &pe):
				npan++
			}
		}
		want1, want2, wantPan := 0, 0, 0
		if e1 != nil && !p1 {
			want1 = 1
		}
		if e2 != nil && !p2 {
			want2 = 1
		}
		for _, f := range []bool{p1, p2, p3, p4} {
			if f {
				wantPan++
			}
		}
		verifAssert(n1 == want1 && n2 == want2 && npan == wantPan, 6)
	} else if err != nil {
		var pe *cff.PanicError
		if errors.As(err, &pe) {
			ok := p1 && pe.Value == verifPanicValOf("R1") || p2 && pe.Value == verifPanicValOf("R2") ||
				p3 && pe.Value == verifPanicValOf("R3") || p4 && pe.Value == verifPanicValOf("R4")
			verifAssert(ok, 7)
		} else {
			verifAssert(e1 != nil && !p1 && err == e1 || e2 != nil && !p2 && err == e2, 7)
		}
	}
	verifCover(coe && nfail == 2, 1)
	verifCover(!coe && nfail == 1, 2)
	verifCover(nfail == 0, 3)
}

// C10: Slice with index, End hook last, exactly once per element
func verifHarness_p02() {
	ctx := verifNdCtx(false)
	xs := verifMkSlice(10)
	verifAllow("X1", 7)
	verifAllow("XE", 3)
	// reference
	fails := 0
	verifRefBegin()
	for i, x := range xs {
		var e error
		p, _ := verifTry(func() { e = X1(i, x) })
		if p || e != nil {
			fails++
		}
	}
	var ee error
	if fails == 0 {
		ee = XE()
	}
	verifRefEnd()
	err := Par02(ctx, xs)
	verifAssert((err == nil) == (fails == 0 && ee == nil), 1)
	n := len(xs)
	if fails == 0 {
		verifAssert(verifCallCount("X1") == n, 2)
		verifAssert(verifCallCount("XE") == 1, 3)
		// every (i, xs[i]) seen exactly once, the End hook after all of them
		for i := 0; i < n; i++ {
			seen := 0
			for c := 0; c < n; c++ {
				if verifCallArg("X1", c, 0) == i && A(verifCallArg("X1", c, 1)) == xs[i] {
					seen++
				}
				verifAssert(verifCallSeq("X1", c) < verifCallSeq("XE", 0), 5)
			}
			verifAssert(seen == 1, 4)
		}
	} else {
		verifAssert(verifCallCount("XE") == 0, 6) // never after a failed element
	}
	verifAssert(verifCallCount("X1") <= n, 9)
	verifCover(n == 3 && fails == 0, 1)
	verifCover(n == 0, 2)
	verifCover(n == 2 && fails == 1, 3)
}

// C08: Slice under ContinueOnError(b) with b symbolic
func verifHarness_p04() {
	ctx := verifNdCtx(false)
	coe := verifNdBool(1)
	xs := verifMkSlice(10)
	verifAllow("X1", 7)
	fails := 0
	verifRefBegin()
	for i, x := range xs {
		var e error
		p, _ := verifTry(func() { e = X1(i, x) })
		if p || e != nil {
			fails++
		}
	}
	verifRefEnd()
	err := Par04(ctx, xs, coe)
	n := len(xs)
	verifAssert((err == nil) == (fails == 0), 1)
	if coe {
		verifAssert(verifCallCount("X1") == n, 2)
		verifAssert(len(multierr.Errors(err)) == fails, 3)
	} else if fails == 0 {
		verifAssert(verifCallCount("X1") == n, 4)
	}
	verifAssert(verifCallCount("X1") <= n, 5)
	verifCover(n == 3 && fails == 2 && coe, 1)
	verifCover(n == 2 && fails == 1 && !coe, 2)
}

// C10: Slice without index, Slice with context, Task
func verifHarness_p03() {
	ctx := verifNdCtx(false)
	xs := verifMkSlice(10)
	ys := verifMkSlice2(20)
	verifAllow("X3", 3)
	fails := 0
	verifRefBegin()
	for i, y := range ys {
		if X3(ctx, i, y) != nil {
			fails++
		}
	}
	verifRefEnd()
	err := Par03(ctx, xs, ys)
	verifAssert((err == nil) == (fails == 0), 1)
	if fails == 0 {
		verifAssert(verifCallCount("X2") == len(xs) && verifCallCount("X3") == len(ys) && verifCallCount("R3") == 1, 2)
		for i := range xs {
			seen := 0
			for c := range xs {
				if A(verifCallArg("X2", c, 0)) == xs[i] {
					seen++
				}
			}
			verifAssert(seen >= 1, 3)
		}
		for i := range ys {
			seen := 0
			for c := range ys {
				if verifCallArg("X3", c, 2) == i && A(verifCallArg("X3", c, 3)) == ys[i] {
					seen++
				}
			}
			verifAssert(seen == 1, 4)
		}
	}
	verifCover(len(xs) == 3 && len(ys) == 2 && fails == 0, 1)
}

// C10: no-index Slice with an End hook
func verifHarness_p07() {
	ctx := verifNdCtx(false)
	xs := verifMkSlice2(10)
	verifAllow("X2", 5)
	fails := 0
	verifRefBegin()
	for _, x := range xs {
		if p, _ := verifTry(func() { X2(x) }); p {
			fails++
		}
	}
	verifRefEnd()
	err := Par07(ctx, xs)
	verifAssert((err == nil) == (fails == 0), 1)
	if fails == 0 {
		verifAssert(verifCallCount("X2") == len(xs), 2)
		verifAssert(verifCallCount("XE2") == 1, 3)
		for c := range xs {
			verifAssert(verifCallSeq("X2", c) < verifCallSeq("XE2", 0), 4)
		}
	} else {
		verifAssert(verifCallCount("XE2") == 0, 5)
	}
	verifCover(len(xs) == 2 && fails == 0, 1)
	verifCover(fails > 0, 2)
}
