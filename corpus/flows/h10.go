package flows

// C04 / C10: Map + MapEnd(func(ctx) error): the End hook may fail or panic
func verifHarness_p10() {
	ctx := verifNdCtx(false)
	m := verifMkMap(30)
	verifAllow("M2", 5)
	verifAllow("ME2", 7)
	fails := 0
	verifRefBegin()
	for k, v := range m {
		if p, _ := verifTry(func() { M2(ctx, k, v) }); p {
			fails++
		}
	}
	var ee error
	pe := false
	if fails == 0 {
		pe, _ = verifTry(func() { ee = ME2(ctx) })
	}
	verifRefEnd()
	err := Par10(ctx, m)
	n := len(m)
	verifAssert((err == nil) == (fails == 0 && ee == nil && !pe), 1)
	if fails == 0 {
		verifAssert(verifCallCount("M2") == n, 2)
		verifAssert(verifCallCount("ME2") == 1, 3)
		for c := 0; c < n; c++ {
			verifAssert(verifCallSeq("M2", c) < verifCallSeq("ME2", 0), 4)
		}
	} else {
		verifAssert(verifCallCount("ME2") == 0, 5)
	}
	verifCover(n == 2 && fails == 0 && pe, 1)
	verifCover(n == 0 && ee != nil, 2)
}

// C04 / C10: Slice + SliceEnd(func(ctx) error)
func verifHarness_p11() {
	ctx := verifNdCtx(false)
	xs := verifMkSlice2(10)
	verifAllow("X2", 5)
	verifAllow("XE3", 7)
	fails := 0
	verifRefBegin()
	for _, x := range xs {
		if p, _ := verifTry(func() { X2(x) }); p {
			fails++
		}
	}
	var ee error
	pe := false
	if fails == 0 {
		pe, _ = verifTry(func() { ee = XE3(ctx) })
	}
	verifRefEnd()
	err := Par11(ctx, xs)
	verifAssert((err == nil) == (fails == 0 && ee == nil && !pe), 1)
	if fails == 0 {
		verifAssert(verifCallCount("X2") == len(xs), 2)
		verifAssert(verifCallCount("XE3") == 1, 3)
		for c := range xs {
			verifAssert(verifCallSeq("X2", c) < verifCallSeq("XE3", 0), 4)
		}
	} else {
		verifAssert(verifCallCount("XE3") == 0, 5)
	}
	verifCover(len(xs) == 2 && fails == 0 && pe, 1)
	verifCover(fails > 0, 2)
}

// C04 / C10: Map + MapEnd(func()): the End hook may panic
func verifHarness_p12() {
	ctx := verifNdCtx(false)
	m := verifMkMap(30)
	verifAllow("M1", 3)
	verifAllow("ME3", 5)
	fails := 0
	verifRefBegin()
	for k, v := range m {
		if e := M1(k, v); e != nil {
			fails++
		}
	}
	pe := false
	if fails == 0 {
		pe, _ = verifTry(func() { ME3() })
	}
	verifRefEnd()
	err := Par12(ctx, m)
	verifAssert((err == nil) == (fails == 0 && !pe), 1)
	if fails == 0 {
		verifAssert(verifCallCount("M1") == len(m), 2)
		verifAssert(verifCallCount("ME3") == 1, 3)
	} else {
		verifAssert(verifCallCount("ME3") == 0, 5)
	}
	verifCover(len(m) == 2 && pe, 1)
}

// C02 / C15: bare identifiers and &identifiers named like generated variables
func verifHarness_f12() {
	ctx := verifNdCtx(false)
	a := A(verifNdInt(1))
	verifRefBegin()
	b, _ := T1(a)
	want, _ := T8(b)
	verifRefEnd()
	d, err := Flow12(ctx, a)
	verifAssert(err == nil, 1)
	verifAssert(d == want, 2)
	verifAssert(A(verifCallArg("T1", 0, 0)) == a, 3)
	verifAssert(verifCallCount("T1") == 1 && verifCallCount("T8") == 1, 4)
	verifCover(d != 0, 1)
}

// C15: a function-literal task assigns to the enclosing function's err
func verifHarness_f13() {
	ctx := verifNdCtx(false)
	a := A(verifNdInt(1))
	verifAllow("T1", 7)
	var wb B
	var we error
	verifRefBegin()
	pan, _ := verifTry(func() { wb, we = T1(a) })
	verifRefEnd()
	b, err := Flow13(ctx, a)
	if pan {
		verifAssert(err != nil, 1)
	} else {
		// the literal's write reaches the enclosing function's variable; the flow itself succeeds
		verifAssert(err == we, 2)
		verifAssert(b == wb, 3)
	}
	verifAssert(verifCallCount("T1") == 1, 4)
	verifCover(!pan && we != nil, 1)
	verifCover(pan, 2)
}

// C15 / C10: function literals in Parallel write to enclosing variables
func verifHarness_p13() {
	ctx := verifNdCtx(false)
	xs := verifMkSlice2(10)
	verifAllow("R1", 3)
	var we error
	verifRefBegin()
	we = R1()
	for _, x := range xs {
		X2(x)
	}
	verifRefEnd()
	n, err := Par13(ctx, xs)
	verifAssert(err == we, 1)
	want := 0
	for i := range xs {
		want += i + 1
	}
	verifAssert(n == want, 2)
	verifAssert(verifCallCount("X2") == len(xs) && verifCallCount("R1") == 1, 3)
	verifCover(we != nil && len(xs) == 2, 1)
}

// C07: a predicate-gated task whose provider fails is never invoked
func verifHarness_f10_fail() {
	ctx := verifNdCtx(false)
	a := A(verifNdInt(1))
	verifAllow("P1", 1)
	verifAllow("T1", 7)
	var e1 error
	verifRefBegin()
	TA(a)
	p1, _ := verifTry(func() { _, e1 = T1(a) })
	P1(a)
	verifRefEnd()
	var d D = D(verifNdInt(2))
	d0 := d
	var e E
	err := Flow10(ctx, a, &d, &e)
	if p1 || e1 != nil {
		verifAssert(err != nil, 1)
		verifAssert(verifCallCount("T8") == 0, 2)
		verifAssert(d == d0, 3)
		if !p1 {
			verifAssert(err == e1, 4)
		}
	} else {
		verifAssert(err == nil, 5)
	}
	verifAssert(verifCallCount("T1") == 1, 6)
	verifCover(e1 != nil, 1)
	verifCover(p1, 2)
}
