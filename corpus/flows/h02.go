package flows

import (
	"errors"

	"go.uber.org/cff"
)

// C11: predicate outcome {true,false,panic} x task outcome {ok,err,panic}
func verifHarness_f03() {
	ctx := verifNdCtx(false)
	a := A(verifNdInt(1))
	pre := D(verifNdInt(2))
	verifAllow("P1", 5)
	verifAllow("T1", 7)
	var (
		b       B
		want    D
		refErr  error
		refPan  any
		refFail bool
		gate    bool
	)
	verifRefBegin()
	ppan, val := verifTry(func() { gate = P1(a) })
	pan := false
	if ppan {
		refPan, refFail = val, true
	}
	if !refFail && gate {
		pan, val = verifTry(func() { b, refErr = T1(a) })
		if pan {
			refPan, refFail = val, true
		} else if refErr != nil {
			refFail = true
		}
	}
	if !refFail {
		want = T5(b) // b is the zero value when the predicate is false
	}
	verifRefEnd()
	d := pre
	err := Flow03(ctx, a, &d)
	verifAssert((err == nil) == !refFail, 1)
	if err == nil {
		verifAssert(d == want, 2)
		verifAssert(verifCallCount("T5") == 1, 3)
		if !gate {
			verifAssert(B(verifCallArg("T5", 0, 0)) == 0, 4)
		}
	} else {
		verifAssert(d == pre, 5)
		var pe *cff.PanicError
		if errors.As(err, &pe) {
			verifAssert(pe.Value == refPan, 6)
		} else {
			verifAssert(refPan == nil && err == refErr, 6)
		}
	}
	verifAssert(verifCallCount("P1") == 1, 7)
	if !ppan && gate {
		verifAssert(verifCallCount("T1") == 1, 8) // gated task runs whenever the predicate is true
	}
	if ppan || !gate {
		verifAssert(verifCallCount("T1") == 0, 9) // never called when the predicate is false (or panicked)
	}
	verifAssert(A(verifCallArg("P1", 0, 0)) == a, 10)
	// the predicate is evaluated before its task
	if verifCallCount("T1") == 1 {
		verifAssert(verifCallSeq("P1", 0) < verifCallSeq("T1", 0), 11)
	}
	verifCover(err == nil && !gate, 1)
	verifCover(err == nil && gate, 2)
	verifCover(err != nil && ppan, 3)
}

// C11: FallbackWith on failure only
func verifHarness_f04() {
	ctx := verifNdCtx(false)
	a := A(verifNdInt(1))
	fb := B(verifNdInt(3))
	pre := D(verifNdInt(2))
	verifAllow("T1", 7)
	verifAllow("T8", 7)
	var (
		b       B
		want    D
		e1      error
		refErr  error
		refPan  any
		refFail bool
	)
	verifRefBegin()
	pan, _ := verifTry(func() { b, e1 = T1(a) })
	if pan || e1 != nil {
		b = fb // the flow proceeds as if T1 had returned the fallback value
	}
	pan, val := verifTry(func() { want, refErr = T8(b) })
	if pan {
		refPan, refFail = val, true
	} else if refErr != nil {
		refFail = true
	}
	verifRefEnd()
	d := pre
	err := Flow04(ctx, a, fb, &d)
	verifAssert((err == nil) == !refFail, 1)
	if err == nil {
		verifAssert(d == want, 2)
	} else {
		verifAssert(d == pre, 3)
		var pe *cff.PanicError
		if errors.As(err, &pe) {
			verifAssert(pe.Value == refPan, 4)
		} else {
			verifAssert(refPan == nil && err == refErr, 4)
		}
	}
	verifAssert(verifCallCount("T1") == 1 && verifCallCount("T8") == 1, 5)
	verifAssert(B(verifCallArg("T8", 0, 0)) == b, 6)
	verifCover(err == nil && b == fb && (pan || e1 != nil), 1)
	verifCover(err == nil && e1 == nil, 2)
}

// C11: predicate false / predicate panic / task failure all covered by fallback
func verifHarness_f05() {
	ctx := verifNdCtx(false)
	a := A(verifNdInt(1))
	fb := D(verifNdInt(3))
	pre := D(verifNdInt(2))
	verifAllow("T1", 3)
	verifAllow("P2", 5)
	verifAllow("T8", 7)
	var (
		b       B
		want    D
		e1, e8  error
		refFail bool
		gate    bool
	)
	verifRefBegin()
	b, e1 = T1(a)
	if e1 != nil {
		refFail = true
	} else {
		ppan, _ := verifTry(func() { gate = P2(ctx, b) })
		switch {
		case ppan:
			want = fb
		case gate:
			tpan, _ := verifTry(func() { want, e8 = T8(b) })
			if tpan || e8 != nil {
				want = fb
			}
		default:
			want = 0
		}
	}
	verifRefEnd()
	d := pre
	err := Flow05(ctx, a, fb, &d)
	verifAssert((err == nil) == !refFail, 1)
	if err == nil {
		verifAssert(d == want, 2)
	} else {
		verifAssert(d == pre && err == e1, 3)
	}
	if !refFail {
		verifAssert(verifCallCount("P2") == 1, 4)
		verifAssert(B(verifCallArg("P2", 0, 2)) == b, 5)
	} else {
		verifAssert(verifCallCount("P2") == 0 && verifCallCount("T8") == 0, 6)
	}
	verifCover(err == nil && want == fb, 1)
	verifCover(err == nil && gate, 2)
}
