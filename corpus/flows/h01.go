package flows

import (
	"errors"

	"go.uber.org/cff"
)

// all user functions succeed: dataflow (C02)
func verifHarness_f01_ok() {
	ctx := verifNdCtx(false)
	a := A(verifNdInt(1))
	pre := D(verifNdInt(2))
	verifRefBegin()
	b, _ := T1(a)
	c := T2(ctx, b)
	want, _ := T3(b, c)
	verifRefEnd()
	d := pre
	err := Flow01(ctx, a, &d)
	verifAssert(err == nil, 1)
	verifAssert(d == want, 2)
	verifAssert(verifCallCount("T1") == 1, 3)
	verifAssert(verifCallCount("T2") == 1, 3)
	verifAssert(verifCallCount("T3") == 1, 3)
	verifAssert(A(verifCallArg("T1", 0, 0)) == a, 4)
	verifAssert(B(verifCallArg("T2", 0, 2)) == b, 4)
	verifAssert(B(verifCallArg("T3", 0, 0)) == b, 4)
	verifAssert(C(verifCallArg("T3", 0, 1)) == c, 4)
	verifCover(d != pre, 1)
}

// any subset of user functions fails or panics: C04, C07
func verifHarness_f01_fail() {
	ctx := verifNdCtx(false)
	a := A(verifNdInt(1))
	pre := D(verifNdInt(2))
	verifAllow("T1", 7)
	verifAllow("T2", 5)
	verifAllow("T3", 7)
	// sequential reference: first failure wins, dependents do not run
	var (
		b       B
		c       C
		want    D
		refErr  error
		refPan  any
		refFail bool
	)
	verifRefBegin()
	pan, val := verifTry(func() { b, refErr = T1(a) })
	if pan {
		refPan, refFail = val, true
	} else if refErr != nil {
		refFail = true
	}
	if !refFail {
		pan, val = verifTry(func() { c = T2(ctx, b) })
		if pan {
			refPan, refFail = val, true
		}
	}
	if !refFail {
		pan, val = verifTry(func() { want, refErr = T3(b, c) })
		if pan {
			refPan, refFail = val, true
		} else if refErr != nil {
			refFail = true
		}
	}
	verifRefEnd()
	d := pre
	err := Flow01(ctx, a, &d)
	// nil exactly when nothing failed; results only then
	verifAssert((err == nil) == !refFail, 1)
	if err == nil {
		verifAssert(d == want, 2)
	} else {
		verifAssert(d == pre, 3) // Results untouched on failure
		var pe *cff.PanicError
		if errors.As(err, &pe) {
			verifAssert(refPan != nil && pe.Value == refPan, 4)
		} else {
			verifAssert(refPan == nil && err == refErr, 5)
		}
	}
	// a failed task's dependents never run; nothing runs twice
	verifAssert(verifCallCount("T1") == 1, 6)
	verifAssert(verifCallCount("T2") <= 1 && verifCallCount("T3") <= 1, 6)
	if refFail && want == 0 {
		verifCover(verifCallCount("T3") == 0, 2)
	}
	verifCover(refPan != nil, 3)
	verifCover(refErr != nil, 4)
}

// Flow02: multi-output task, Invoke sink, two Results, Concurrency(2)
func verifHarness_f02_ok() {
	ctx := verifNdCtx(false)
	a := A(verifNdInt(1))
	verifRefBegin()
	b, c, _ := T4(a)
	wantD := T5(b)
	e := T6(c)
	wantF, _ := T7(wantD, e)
	verifRefEnd()
	var f F
	var d D
	err := Flow02(ctx, a, &f, &d)
	verifAssert(err == nil, 1)
	verifAssert(f == wantF && d == wantD, 2)
	verifAssert(verifCallCount("T4") == 1 && verifCallCount("T5") == 1 && verifCallCount("T6") == 1 && verifCallCount("T7") == 1 && verifCallCount("S1") == 1, 3)
	verifAssert(C(verifCallArg("S1", 0, 0)) == c, 4)
	verifAssert(D(verifCallArg("T7", 0, 0)) == wantD && E(verifCallArg("T7", 0, 1)) == e, 4)
	verifAssert(verifSchedConcurrency() == 2, 5)
	verifAssert(verifSchedEnqueues() == 5, 6)
	verifCover(f != 0, 1)
}

// C12 (generated plumbing): any task of Flow02 may fail or panic, so the flow
// can return early while independent siblings are still in flight
func verifHarness_f02_fail() {
	ctx := verifNdCtx(false)
	a := A(verifNdInt(1))
	verifAllow("T4", 7)
	verifAllow("T5", 5)
	verifAllow("T6", 5)
	verifAllow("T7", 7)
	verifAllow("S1", 5)
	var f F
	var d D
	err := Flow02(ctx, a, &f, &d)
	verifCover(err != nil, 1)
	verifCover(err == nil, 2)
}

// C20: FlowM1 (modifier-mode subset), every task may fail or panic
func verifHarness_fm1() {
	ctx := verifNdCtx(false)
	a := A(verifNdInt(1))
	verifAllow("T4", 7)
	verifAllow("T5", 5)
	verifAllow("T6", 5)
	verifAllow("T7", 7)
	var b B
	var c C
	var wantD D
	var e E
	var wantF F
	var e4, e7 error
	failed := false
	verifRefBegin()
	p4, _ := verifTry(func() { b, c, e4 = T4(a) })
	if p4 || e4 != nil {
		failed = true
	} else {
		p5, _ := verifTry(func() { wantD = T5(b) })
		p6, _ := verifTry(func() { e = T6(c) })
		if p5 || p6 {
			failed = true
		} else {
			p7, _ := verifTry(func() { wantF, e7 = T7(wantD, e) })
			if p7 || e7 != nil {
				failed = true
			}
			if !p7 && e7 != nil {
				verifCover(true, 3)
			}
		}
	}
	verifRefEnd()
	f, d := F(verifNdInt(2)), D(verifNdInt(3))
	f0, d0 := f, d
	err := FlowM1(ctx, a, &f, &d)
	verifAssert((err == nil) == !failed, 1)
	if !failed {
		verifAssert(f == wantF && d == wantD, 2)
		verifAssert(verifCallCount("T4") == 1 && verifCallCount("T5") == 1 && verifCallCount("T6") == 1 && verifCallCount("T7") == 1, 3)
		verifAssert(D(verifCallArg("T7", 0, 0)) == wantD && E(verifCallArg("T7", 0, 1)) == e, 4)
	} else {
		verifAssert(f == f0 && d == d0, 5)
		if !p4 && e4 != nil {
			verifAssert(err == e4, 6)
			verifAssert(verifCallCount("T5") == 0 && verifCallCount("T6") == 0 && verifCallCount("T7") == 0, 7)
		}
	}
	verifAssert(verifSchedConcurrency() == 2, 8)
	verifCover(!failed, 1)
	verifCover(p4, 2)
}
