//go:build cff

package flows

import (
	"context"

	"go.uber.org/cff"
)

// Flow12: directive arguments that are bare identifiers and &identifiers
// spelled like the variables the generated code declares (v1, v2, v3, ctx).
func Flow12(ctx0 context.Context, a A) (D, error) {
	ctx := ctx0
	v1 := a
	var v3 D
	err := cff.Flow(ctx,
		cff.Params(v1),
		cff.Results(&v3),
		cff.Task(T1),
		cff.Task(T8),
	)
	return v3, err
}

// Flow13: a function literal used as a task writes to a variable of the
// enclosing function named err (the name of the generated named results).
func Flow13(ctx context.Context, a A) (B, error) {
	var b B
	var err error
	ferr := cff.Flow(ctx,
		cff.Params(a),
		cff.Results(&b),
		cff.Task(func(x A) B {
			r, e := T1(x)
			err = e
			return r
		}),
	)
	if ferr != nil {
		return 0, ferr
	}
	return b, err
}

// Par13: function literals in Parallel write to enclosing variables named
// err and ctx-shadowing identifiers.
func Par13(ctx context.Context, xs []A) (int, error) {
	var err error
	n := 0
	perr := cff.Parallel(ctx,
		cff.Concurrency(1),
		cff.Task(func() {
			err = R1()
		}),
		cff.Slice(func(idx int, x A) {
			X2(x)
			n += idx + 1
		}, xs),
	)
	if perr != nil {
		return n, perr
	}
	return n, err
}
