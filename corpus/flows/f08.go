//go:build cff

package flows

import (
	"context"

	"go.uber.org/cff"
)

// Par08: Map with an End hook.
func Par08(ctx context.Context, m map[A]B) error {
	return cff.Parallel(ctx,
		cff.Map(M1, m, cff.MapEnd(ME)),
	)
}

// Par09: Map with context under a symbolic ContinueOnError value, plus a Task.
func Par09(ctx context.Context, m map[A]B, coe bool) error {
	return cff.Parallel(ctx,
		cff.ContinueOnError(coe),
		cff.Map(M2, m),
		cff.Task(R3),
	)
}
