package flows

func verifMkMap(site int) map[A]B {
	switch verifNdInt(site) {
	case 0:
		return nil
	case 1:
		return map[A]B{A(verifNdInt(site + 1)): B(verifNdInt(site + 2))}
	}
	k1, k2 := A(verifNdInt(site+1)), A(verifNdInt(site+3))
	verifAssume(k1 != k2)
	return map[A]B{k1: B(verifNdInt(site + 2)), k2: B(verifNdInt(site + 4))}
}

// C10 / C04: Map(k, m[k]) exactly once per key, MapEnd last, never after a failure
func verifHarness_p08() {
	ctx := verifNdCtx(false)
	m := verifMkMap(30)
	verifAllow("M1", 7)
	verifAllow("ME", 3)
	fails := 0
	verifRefBegin()
	for k, v := range m {
		var e error
		p, _ := verifTry(func() { e = M1(k, v) })
		if p || e != nil {
			fails++
		}
	}
	var ee error
	if fails == 0 {
		ee = ME()
	}
	verifRefEnd()
	err := Par08(ctx, m)
	n := len(m)
	verifAssert((err == nil) == (fails == 0 && ee == nil), 1)
	if fails == 0 {
		verifAssert(verifCallCount("M1") == n, 2)
		verifAssert(verifCallCount("ME") == 1, 3)
		for k, v := range m {
			seen := 0
			for c := 0; c < n; c++ {
				if A(verifCallArg("M1", c, 0)) == k && B(verifCallArg("M1", c, 1)) == v {
					seen++
				}
				verifAssert(verifCallSeq("M1", c) < verifCallSeq("ME", 0), 5)
			}
			verifAssert(seen == 1, 4)
		}
	} else {
		verifAssert(verifCallCount("ME") == 0, 6)
	}
	verifAssert(verifCallCount("M1") <= n, 7)
	verifCover(n == 2 && fails == 0, 1)
	verifCover(n == 0, 2)
	verifCover(n == 2 && fails == 1, 3)
}

// C10 / C08: Map with context, ContinueOnError(b)
func verifHarness_p09() {
	ctx := verifNdCtx(false)
	coe := verifNdBool(1)
	m := verifMkMap(30)
	verifAllow("M2", 5)
	verifAllow("R3", 1)
	fails := 0
	verifRefBegin()
	for k, v := range m {
		if p, _ := verifTry(func() { M2(ctx, k, v) }); p {
			fails++
		}
	}
	verifRefEnd()
	err := Par09(ctx, m, coe)
	n := len(m)
	verifAssert((err == nil) == (fails == 0), 1)
	if fails == 0 || coe {
		verifAssert(verifCallCount("M2") == n, 2)
	}
	if fails == 0 {
		verifAssert(verifCallCount("R3") == 1, 3)
		for k, v := range m {
			seen := 0
			for c := 0; c < n; c++ {
				if A(verifCallArg("M2", c, 2)) == k && B(verifCallArg("M2", c, 3)) == v {
					seen++
				}
			}
			verifAssert(seen == 1, 4)
		}
	}
	verifCover(n == 2 && fails == 0, 1)
	verifCover(n == 2 && fails == 2 && coe, 2)
}
