//go:build cff

package flows

import (
	"context"

	"go.uber.org/cff"
)

// Par07: Slice function without index parameter combined with an End hook.
func Par07(ctx context.Context, xs []A) error {
	return cff.Parallel(ctx,
		cff.Slice(X2, xs, cff.SliceEnd(XE2)),
	)
}
