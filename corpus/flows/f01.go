//go:build cff

package flows

import (
	"context"

	"go.uber.org/cff"
)

// Flow01: a diamond-free chain with a fan-in, tasks listed out of order.
func Flow01(ctx context.Context, a A, d *D) error {
	return cff.Flow(ctx,
		cff.Params(a),
		cff.Results(d),
		cff.Task(T3),
		cff.Task(T1),
		cff.Task(T2),
	)
}

// Flow02: multi-output task, two results, an Invoke sink, explicit concurrency.
func Flow02(ctx context.Context, a A, f *F, d *D) error {
	return cff.Flow(ctx,
		cff.Concurrency(2),
		cff.Params(a),
		cff.Task(T7),
		cff.Results(f, d),
		cff.Task(T6),
		cff.Task(T4),
		cff.Task(T5),
		cff.Task(S1, cff.Invoke(true)),
	)
}

// FlowM1: the modifier-mode subset (Params, Results, Concurrency, plain
// Tasks): multi-output task, error-less tasks, two Results.
func FlowM1(ctx context.Context, a A, f *F, d *D) error {
	return cff.Flow(ctx,
		cff.Concurrency(2),
		cff.Params(a),
		cff.Task(T7),
		cff.Results(f, d),
		cff.Task(T6),
		cff.Task(T4),
		cff.Task(T5),
	)
}
