//go:build cff

package flows

import (
	"context"

	"go.uber.org/cff"
)

// Flow10: first flow of its file, so task serials are 0,1,2,3; the gated task
// (serial 2) consumes the output of task serial 1 and carries predicate
// serial 1 (serial numbers of tasks and predicates are separate spaces).
func Flow10(ctx context.Context, a A, d *D, e *E) error {
	return cff.Flow(ctx,
		cff.Params(a),
		cff.Results(d, e),
		cff.Task(TA),
		cff.Task(T1),
		cff.Task(T8, cff.Predicate(P1)),
		cff.Task(T6),
	)
}
