//go:build cff

package flows

import (
	"context"

	"go.uber.org/cff"
)

// Par10: Map with context and an End hook of the signature func(context.Context) error.
func Par10(ctx context.Context, m map[A]B) error {
	return cff.Parallel(ctx,
		cff.Map(M2, m, cff.MapEnd(ME2)),
	)
}

// Par11: Slice with an End hook of the signature func(context.Context) error.
func Par11(ctx context.Context, xs []A) error {
	return cff.Parallel(ctx,
		cff.Slice(X2, xs, cff.SliceEnd(XE3)),
	)
}

// Par12: Map with an End hook of the signature func().
func Par12(ctx context.Context, m map[A]B) error {
	return cff.Parallel(ctx,
		cff.Map(M1, m, cff.MapEnd(ME3)),
	)
}
