package flows

// C15: arguments evaluated once, in source order, before any task starts
func verifHarness_f06() {
	ctx := verifNdCtx(false)
	a := A(verifNdInt(1))
	fb := B(verifNdInt(3))
	var d D
	verifAllow("T1", 7)
	var b B
	var e1 error
	verifRefBegin()
	pan, _ := verifTry(func() { b, e1 = T1(a) })
	if pan || e1 != nil {
		b = fb
	}
	want, _ := T8(b)
	verifRefEnd()
	err := Flow06(ctx, a, fb, &d)
	verifAssert(err == nil && d == want, 1)
	for k := 1; k <= 5; k++ {
		verifAssert(verifArgCount(k) == 1, 2)
		if k > 1 {
			verifAssert(verifArgSeq(k-1) < verifArgSeq(k), 3)
		}
		verifAssert(verifArgSeq(k) < verifCallSeq("T1", 0), 4)
	}
	verifAssert(A(verifCallArg("T1", 0, 0)) == a, 5)
	verifAssert(verifSchedConcurrency() == 3, 6)
	verifCover(e1 != nil, 1)
	verifCover(pan, 2)
}

// C15: the generated wrapper must not capture a user variable named err
func verifHarness_f07() {
	ctx := verifNdCtx(false)
	a := A(verifNdInt(1))
	var d D
	verifRefBegin()
	b, _ := T1(a)
	want := T9(b, 1) // wrapE(non-nil outer error) == 1
	verifRefEnd()
	err := Flow07(ctx, a, &d)
	verifAssert(err == nil, 1)
	verifAssert(E(verifCallArg("T9", 0, 1)) == 1, 2)
	verifAssert(d == want, 3)
}

// C15: Parallel arguments
func verifHarness_p06() {
	ctx := verifNdCtx(false)
	coe := verifNdBool(1)
	xs := verifMkSlice(10)
	err := Par06(ctx, xs, coe)
	verifAssert(err == nil, 1)
	for k := 1; k <= 4; k++ {
		verifAssert(verifArgCount(k) == 1, 2)
		if k > 1 {
			verifAssert(verifArgSeq(k-1) < verifArgSeq(k), 3)
		}
		if len(xs) > 0 {
			verifAssert(verifArgSeq(k) < verifCallSeq("X1", 0), 4)
		}
	}
	verifAssert(verifSchedConcurrency() == 2, 5)
	verifAssert(verifCallCount("X1") == len(xs), 6)
	verifCover(len(xs) == 2, 1)
}
