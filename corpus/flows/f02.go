//go:build cff

package flows

import (
	"context"

	"go.uber.org/cff"
)

// Flow03: predicate with its own input gates T1; its consumer still runs.
func Flow03(ctx context.Context, a A, d *D) error {
	return cff.Flow(ctx,
		cff.Params(a),
		cff.Results(d),
		cff.Task(T5),
		cff.Task(T1, cff.Predicate(P1)),
	)
}

// Flow04: FallbackWith substitutes values when T1 fails or panics.
func Flow04(ctx context.Context, a A, fb B, d *D) error {
	return cff.Flow(ctx,
		cff.Params(a),
		cff.Results(d),
		cff.Task(T1, cff.FallbackWith(fb)),
		cff.Task(T8),
	)
}

// Flow05: predicate (with context) mid-graph plus fallback on the gated task.
func Flow05(ctx context.Context, a A, fb D, d *D) error {
	return cff.Flow(ctx,
		cff.Params(a),
		cff.Results(d),
		cff.Task(T1),
		cff.Task(T8, cff.Predicate(P2), cff.FallbackWith(fb)),
	)
}
