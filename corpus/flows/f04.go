//go:build cff

package flows

import (
	"context"

	"go.uber.org/cff"
)

// Flow08: instrumented flow, fallback on t1, predicate-gated t8.
func Flow08(ctx context.Context, em cff.Emitter, a A, fb B, d *D) error {
	return cff.Flow(ctx,
		cff.WithEmitter(em),
		cff.InstrumentFlow("flow08"),
		cff.Params(a),
		cff.Results(d),
		cff.Task(T1, cff.Instrument("t1"), cff.FallbackWith(fb)),
		cff.Task(T8, cff.Instrument("t8"), cff.Predicate(P1)),
	)
}

// Par05: instrumented parallel.
func Par05(ctx context.Context, em cff.Emitter) error {
	return cff.Parallel(ctx,
		cff.WithEmitter(em),
		cff.InstrumentParallel("par05"),
		cff.Task(R1, cff.Instrument("t1")),
		cff.Task(R3, cff.Instrument("t8")),
	)
}
