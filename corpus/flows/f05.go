//go:build cff

package flows

import (
	"context"

	"go.uber.org/cff"
)

// Flow06: every argument position has a side effect; user identifiers are
// named like the ones generated code introduces.
func Flow06(ctx context.Context, a A, fb B, d *D) error {
	sched, emitter, tasks, task0, v1, flowInfo := a, a, a, a, a, a
	_, _, _, _, _, _ = sched, emitter, tasks, task0, v1, flowInfo
	return cff.Flow(argCtx(1, ctx),
		cff.Params(argA(2, sched+emitter-tasks+task0-v1+flowInfo-a)),
		cff.Results(argPD(3, d)),
		cff.Concurrency(argI(4, 3)),
		cff.Task(T1, cff.FallbackWith(argB(5, fb))),
		cff.Task(T8),
	)
}

// Flow07: an enclosing-scope variable named err is used in an argument.
func Flow07(ctx context.Context, a A, d *D) error {
	err := verifErrOf("T9")
	_ = err // also used elsewhere, so the output compiles even if the generator captures it
	return cff.Flow(ctx,
		cff.Params(a, wrapE(err)),
		cff.Results(d),
		cff.Task(T1),
		cff.Task(T9),
	)
}

// Par06: side effects in Parallel arguments.
func Par06(ctx context.Context, xs []A, coe bool) error {
	return cff.Parallel(argCtx(1, ctx),
		cff.Concurrency(argI(2, 2)),
		cff.ContinueOnError(argBool(3, coe)),
		cff.Slice(X1, argS(4, xs)),
	)
}
