// Package flows is the L2 corpus: directive programs (files tagged cff), the
// user functions they call (declared without bodies: the engine supplies
// stubs with symbolic outcomes) and one harness per program stating the
// property against a sequential reference written in plain Go.
package flows

import "context"

// ---- engine intrinsics (declared, never defined) ----

// BEGIN-DECLS

func verifNdInt(site int) int
func verifNdBool(site int) bool
func verifAssume(c bool)
func verifAssert(c bool, id int)
func verifCover(c bool, id int)
func verifNdCtx(cancelled bool) context.Context
func verifCancel()
func verifRefBegin()
func verifRefEnd()

// verifAllow sets the admissible outcomes of a user function:
// bit 0 = returns normally, bit 1 = returns its error, bit 2 = panics,
// bit 3 = panics with a value of an uncomparable type (a slice).
func verifAllow(name string, mask int)
func verifCallCount(name string) int
func verifCallSeq(name string, call int) int
func verifCallArg(name string, call, cell int) int
func verifErrOf(name string) error
func verifPanicValOf(name string) any
func verifSeq() int
func verifSchedConcurrency() int
func verifSchedEnqueues() int
func verifArgLog(k int)
func verifArgCount(k int) int
func verifArgSeq(k int) int

// END-DECLS

// ---- value types (one machine word each, so results are single uninterpreted terms) ----

type A int
type B int
type C int
type D int
type E int
type F int

// argument wrappers with a visible side effect (C15)
func argCtx(k int, v context.Context) context.Context { verifArgLog(k); return v }
func argA(k int, v A) A                               { verifArgLog(k); return v }
func argE(k int, v E) E                               { verifArgLog(k); return v }
func argB(k int, v B) B                               { verifArgLog(k); return v }
func argPD(k int, v *D) *D                            { verifArgLog(k); return v }
func argI(k int, v int) int                           { verifArgLog(k); return v }
func argBool(k int, v bool) bool                      { verifArgLog(k); return v }
func argS(k int, v []A) []A                           { verifArgLog(k); return v }
func wrapE(err error) E {
	if err != nil {
		return 1
	}
	return 0
}

// verifTry runs f and reports whether it panicked.
func verifTry(f func()) (panicked bool, val any) {
	defer func() {
		if r := recover(); r != nil {
			panicked = true
			val = r
		}
	}()
	f()
	return
}

// ---- user functions (bodies supplied by the engine) ----

// BEGIN-USERFNS

func T1(a A) (B, error)
func T2(ctx context.Context, b B) C
func T3(b B, c C) (D, error)
func T4(a A) (B, C, error)
func T5(b B) D
func T6(c C) E
func T7(d D, e E) (F, error)
func S1(c C)

// predicates and extra tasks
func P1(a A) bool
func P2(ctx context.Context, b B) bool
func T8(b B) (D, error)
func T9(b B, e E) D
func TA(a A) C

// parallel tasks
func R1() error
func R2(ctx context.Context) error
func R3()
func R4(ctx context.Context)
func X1(i int, a A) error
func X2(a A)
func X3(ctx context.Context, i int, a A) error
func XE() error
func XE2(ctx context.Context)
func M1(k A, v B) error
func M2(ctx context.Context, k A, v B)
func ME() error
func ME2(ctx context.Context) error
func XE3(ctx context.Context) error
func ME3()

// END-USERFNS
