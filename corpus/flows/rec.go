package flows

import (
	"context"
	"time"

	"go.uber.org/cff"
)

// A recording emitter (C18). Events are counted per recorder, task slot and
// kind; the sequence number of the last event of each kind is kept so that
// "Done comes last" can be stated.

const (
	evSuccess = iota
	evError
	evErrorRecovered
	evSkipped
	evPanic
	evPanicRecovered
	evDone
	evKinds
)

const (
	verifRecs  = 5
	verifSlots = 3
)

var (
	verifTaskCnt [verifRecs][verifSlots][evKinds]int
	verifTaskSeq [verifRecs][verifSlots][evKinds]int
	verifTaskErr [verifRecs][verifSlots]error
	verifTaskPan [verifRecs][verifSlots]any
	verifDirCnt  [verifRecs][3]int // success, error, done
	verifDirSeq  [verifRecs][3]int
	verifDirErr  [verifRecs]error
	verifInits   [verifRecs]int
)

type verifRec struct{ id int }

type verifTaskRec struct{ id, slot int }

type verifDirRec struct{ id int }

func verifSlotOf(name string) int {
	switch name {
	case "t1":
		return 0
	case "t8":
		return 1
	}
	return 2
}

func (r *verifRec) TaskInit(t *cff.TaskInfo, d *cff.DirectiveInfo) cff.TaskEmitter {
	verifInits[r.id]++
	return &verifTaskRec{r.id, verifSlotOf(t.Name)}
}
func (r *verifRec) FlowInit(*cff.FlowInfo) cff.FlowEmitter             { return &verifDirRec{r.id} }
func (r *verifRec) ParallelInit(*cff.ParallelInfo) cff.ParallelEmitter { return &verifDirRec{r.id} }
func (r *verifRec) SchedulerInit(*cff.SchedulerInfo) cff.SchedulerEmitter {
	return nil
}

func (t *verifTaskRec) ev(k int) {
	verifTaskCnt[t.id][t.slot][k]++
	verifTaskSeq[t.id][t.slot][k] = verifSeq()
}
func (t *verifTaskRec) TaskSuccess(context.Context) { t.ev(evSuccess) }
func (t *verifTaskRec) TaskError(_ context.Context, err error) {
	t.ev(evError)
	verifTaskErr[t.id][t.slot] = err
}
func (t *verifTaskRec) TaskErrorRecovered(_ context.Context, err error) {
	t.ev(evErrorRecovered)
	verifTaskErr[t.id][t.slot] = err
}
func (t *verifTaskRec) TaskSkipped(context.Context, error) { t.ev(evSkipped) }
func (t *verifTaskRec) TaskPanic(_ context.Context, v interface{}) {
	t.ev(evPanic)
	verifTaskPan[t.id][t.slot] = v
}
func (t *verifTaskRec) TaskPanicRecovered(_ context.Context, v interface{}) {
	t.ev(evPanicRecovered)
	verifTaskPan[t.id][t.slot] = v
}
func (t *verifTaskRec) TaskDone(context.Context, time.Duration) { t.ev(evDone) }

func (d *verifDirRec) dir(k int) {
	verifDirCnt[d.id][k]++
	verifDirSeq[d.id][k] = verifSeq()
}
func (d *verifDirRec) FlowSuccess(context.Context) { d.dir(0) }
func (d *verifDirRec) FlowError(_ context.Context, err error) {
	d.dir(1)
	verifDirErr[d.id] = err
}
func (d *verifDirRec) FlowDone(context.Context, time.Duration) { d.dir(2) }
func (d *verifDirRec) ParallelSuccess(context.Context)         { d.dir(0) }
func (d *verifDirRec) ParallelError(_ context.Context, err error) {
	d.dir(1)
	verifDirErr[d.id] = err
}
func (d *verifDirRec) ParallelDone(context.Context, time.Duration) { d.dir(2) }
