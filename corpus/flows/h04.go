package flows

import "go.uber.org/cff"

func verifExactlyOne(xs ...int) bool {
	s := 0
	for _, x := range xs {
		if x < 0 || x > 1 {
			return false
		}
		s += x
	}
	return s == 1
}

// C18: emitter protocol for a flow; two recorders in an EmitterStack must each
// see what a single recorder sees.
func verifHarness_f08() {
	ctx := verifNdCtx(false)
	a := A(verifNdInt(1))
	fb := B(verifNdInt(3))
	var d D
	verifAllow("T1", 7)
	verifAllow("T8", 7)
	verifAllow("P1", 1)
	em := cff.EmitterStack(&verifRec{0}, &verifRec{1})
	err := Flow08(ctx, em, a, fb, &d)
	for r := 0; r < 2; r++ {
		dc := verifDirCnt[r]
		// exactly one of Success / Error, then exactly one Done, which is last
		verifAssert(verifExactlyOne(dc[0], dc[1]), 1)
		verifAssert(dc[2] == 1, 2)
		verifAssert((err == nil) == (dc[0] == 1), 3)
		if err != nil {
			verifAssert(verifDirErr[r] == err, 4)
			verifAssert(verifDirSeq[r][2] > verifDirSeq[r][1], 5)
		} else {
			verifAssert(verifDirSeq[r][2] > verifDirSeq[r][0], 5)
		}
		// t1 always runs: exactly one outcome event and one TaskDone
		t1 := verifTaskCnt[r][0]
		verifAssert(verifExactlyOne(t1[evSuccess], t1[evError], t1[evErrorRecovered], t1[evPanic], t1[evPanicRecovered]), 6)
		verifAssert(t1[evError] == 0 && t1[evPanic] == 0, 7) // failures are recovered by the fallback
		verifAssert(t1[evDone] == 1, 8)
		if t1[evErrorRecovered] == 1 {
			verifAssert(verifTaskErr[r][0] == verifErrOf("T1"), 9)
		}
		if t1[evPanicRecovered] == 1 {
			verifAssert(verifTaskPan[r][0] == verifPanicValOf("T1"), 9)
		}
		// t8: invoked iff its predicate is true
		t8 := verifTaskCnt[r][1]
		if verifCallCount("T8") == 1 {
			verifAssert(verifExactlyOne(t8[evSuccess], t8[evError], t8[evPanic]), 10)
			verifAssert(t8[evDone] == 1, 11)
			verifAssert(t8[evSkipped] == 0, 12)
		} else {
			verifAssert(t8[evSuccess] == 0 && t8[evError] == 0 && t8[evPanic] == 0 && t8[evDone] == 0, 13)
			if err == nil {
				verifAssert(t8[evSkipped] == 1, 14)
			}
		}
		verifAssert(verifDirSeq[r][2] > verifTaskSeq[r][0][evDone], 15)
	}
	verifCover(err == nil && verifCallCount("T8") == 0, 1)
	verifCover(err != nil, 2)
	verifCover(verifTaskCnt[0][0][evPanicRecovered] == 1, 3)
}

// C18: emitter protocol for a parallel
func verifHarness_p05() {
	ctx := verifNdCtx(false)
	verifAllow("R1", 7)
	verifAllow("R3", 5)
	err := Par05(ctx, &verifRec{0})
	dc := verifDirCnt[0]
	verifAssert(verifExactlyOne(dc[0], dc[1]), 1)
	verifAssert(dc[2] == 1, 2)
	verifAssert((err == nil) == (dc[0] == 1), 3)
	if err != nil {
		verifAssert(verifDirErr[0] == err, 4)
	}
	for slot, name := range []string{"R1", "R3"} {
		tc := verifTaskCnt[0][slot]
		if verifCallCount(name) == 1 {
			verifAssert(verifExactlyOne(tc[evSuccess], tc[evError], tc[evPanic]), 5)
			verifAssert(tc[evDone] == 1, 6)
		} else {
			verifAssert(tc[evSuccess] == 0 && tc[evError] == 0 && tc[evPanic] == 0 && tc[evDone] == 0, 7)
		}
	}
	verifCover(err == nil, 1)
	verifCover(err != nil && verifTaskCnt[0][1][evPanic] == 1, 2)
}

// C18: a nested stack shared by two outer stacks (each recorder must see
// exactly what it would see alone)
func verifHarness_f08n() {
	ctx := verifNdCtx(false)
	a := A(verifNdInt(1))
	fb := B(verifNdInt(3))
	var d1, d2 D
	verifAllow("T1", 3)
	verifAllow("T8", 1)
	verifAllow("P1", 1)
	base := cff.EmitterStack(&verifRec{0}, &verifRec{1}, &verifRec{2})
	emA := cff.EmitterStack(base, &verifRec{3})
	emB := cff.EmitterStack(base, &verifRec{4})
	errA := Flow08(ctx, emA, a, fb, &d1)
	// recorder 3 saw the whole first execution, recorder 4 nothing yet
	verifAssert(errA == nil, 1)
	verifAssert(verifDirCnt[3][0] == 1 && verifDirCnt[3][2] == 1, 2)
	verifAssert(verifDirCnt[4][0] == 0 && verifDirCnt[4][2] == 0, 3)
	errB := Flow08(ctx, emB, a, fb, &d2)
	verifAssert(errB == nil, 4)
	verifAssert(verifDirCnt[3][0] == 1 && verifDirCnt[3][2] == 1, 5) // unchanged by the second execution
	verifAssert(verifDirCnt[4][0] == 1 && verifDirCnt[4][2] == 1, 6)
	for r := 0; r < 3; r++ {
		verifAssert(verifDirCnt[r][0] == 2 && verifDirCnt[r][2] == 2, 7) // the shared base saw both
	}
	verifAssert(verifTaskCnt[3][0][evDone] == 1 && verifTaskCnt[4][0][evDone] == 1, 8)
	verifCover(d1 == d2, 1)
}
