#!/usr/bin/env python3
# validates MANIFEST.json and every evidence file against the given schemas
import json,sys,glob
import jsonschema
ms=json.load(open('/root/.vp/MANIFEST.schema.json')); es=json.load(open('/root/.vp/EVIDENCE.schema.json'))
m=json.load(open('/verif/MANIFEST.json')); jsonschema.validate(m,ms)
ok=True
for c in m['checks']:
    f='/verif/'+c['evidence_file']
    try:
        e=json.load(open(f)); jsonschema.validate(e,es)
        lvl=e['level']; cov=e['coverage']
        print(c['property_id'],'ok',lvl,'tier',e['tier'],'eval',cov.get('evaluations'),'nontriv',cov.get('distinct_nontrivial'),'viol',e.get('violations'),'wall',round(e['wall_s']))
        if lvl!=c['level_claimed']['category']: print('   LEVEL MISMATCH manifest',c['level_claimed']['category']); ok=False
    except Exception as ex:
        ok=False; print(c['property_id'],'INVALID',str(ex)[:200])
sys.exit(0 if ok else 1)
