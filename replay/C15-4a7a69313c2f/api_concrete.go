// Package flows is the L2 corpus: directive programs (files tagged cff), the
// user functions they call (declared without bodies: the engine supplies
// stubs with symbolic outcomes) and one harness per program stating the
// property against a sequential reference written in plain Go.
package flows

import (
	"context"
	"errors"
	"fmt"
	"strings"
	"sync"
	"time"
)

// ---- engine intrinsics (declared, never defined) ----


var verifModel = map[string]int64{"f_T1_0_0(0)": 0, "f_T9_0_0(0,0)": 0, "f_T9_0_0(0,1)": 0, "nd_int_1": 0, "out_T1(0)": 0, "out_T9(0,0)": 0, "out_T9(0,1)": 0, "nd_int_9000": 0}

type verifCall struct {
	name string
	args []int64
	seq  int
}

var (
	verifMu        sync.Mutex
	verifRef       bool
	verifLog       []verifCall
	verifSeqN      int
	verifFailed    []int
	verifErrs      = map[string]error{}
	verifPans      = map[string]any{}
	verifCtxCancel context.CancelFunc
)

type verifPanicTok struct{ name string }

func verifReset() {
	verifMu.Lock()
	defer verifMu.Unlock()
	verifRef, verifLog, verifSeqN, verifFailed = false, nil, 0, nil
	verifArgs = map[int][]int{}
}

func verifNdInt(site int) int   { return int(verifModel[fmt.Sprintf("nd_int_%d", site)]) }
func verifNdBool(site int) bool { return verifModel[fmt.Sprintf("nd_bool_%d", site)] != 0 }
func verifAssume(c bool) {
	if !c {
		panic("verif: assumption violated in replay")
	}
}
func verifAssert(c bool, id int) {
	if !c {
		verifMu.Lock()
		verifFailed = append(verifFailed, id)
		verifMu.Unlock()
	}
}
func verifCover(c bool, id int) {}
func verifNdCtx(cancelled bool) context.Context {
	ctx, cancel := context.WithCancel(context.Background())
	verifCtxCancel = cancel
	if cancelled {
		cancel()
	}
	return ctx
}
func verifCancel()                   { verifCtxCancel() }
func verifRefBegin()                 { verifMu.Lock(); verifRef = true; verifMu.Unlock() }
func verifRefEnd()                   { verifMu.Lock(); verifRef = false; verifMu.Unlock() }
func verifAllow(name string, m int)  {}
func verifCallCount(name string) int {
	verifMu.Lock()
	defer verifMu.Unlock()
	n := 0
	for _, c := range verifLog {
		if c.name == name {
			n++
		}
	}
	return n
}
func verifNthCall(name string, call int) *verifCall {
	n := 0
	for i := range verifLog {
		if verifLog[i].name == name {
			if n == call {
				return &verifLog[i]
			}
			n++
		}
	}
	return nil
}
func verifCallSeq(name string, call int) int {
	verifMu.Lock()
	defer verifMu.Unlock()
	if c := verifNthCall(name, call); c != nil {
		return c.seq
	}
	return 0
}
func verifCallArg(name string, call, cell int) int {
	verifMu.Lock()
	defer verifMu.Unlock()
	if c := verifNthCall(name, call); c != nil && cell < len(c.args) {
		return int(c.args[cell])
	}
	return 0
}
func verifErrOf(name string) error {
	verifMu.Lock()
	defer verifMu.Unlock()
	if e, ok := verifErrs[name]; ok {
		return e
	}
	e := errors.New("error returned by " + name)
	verifErrs[name] = e
	return e
}
func verifPanicValOf(name string) any {
	verifMu.Lock()
	defer verifMu.Unlock()
	if v, ok := verifPans[name]; ok {
		return v
	}
	v := &verifPanicTok{name}
	verifPans[name] = v
	return v
}
func verifSeq() int {
	verifMu.Lock()
	defer verifMu.Unlock()
	verifSeqN++
	return verifSeqN - 1
}
var verifArgs = map[int][]int{}

func verifArgLog(k int) {
	verifMu.Lock()
	verifArgs[k] = append(verifArgs[k], verifSeqN)
	verifSeqN++
	verifMu.Unlock()
}
func verifArgCount(k int) int { verifMu.Lock(); defer verifMu.Unlock(); return len(verifArgs[k]) }
func verifArgSeq(k int) int {
	verifMu.Lock()
	defer verifMu.Unlock()
	if s := verifArgs[k]; len(s) > 0 {
		return s[len(s)-1]
	}
	return -1
}
func verifSchedConcurrency() int { return int(verifModel["replay_sched_concurrency"]) }
func verifSchedEnqueues() int    { return int(verifModel["replay_sched_enqueues"]) }

func verifLogCall(name string, args ...int64) {
	verifMu.Lock()
	if !verifRef {
		verifLog = append(verifLog, verifCall{name, args, verifSeqN})
		verifSeqN++
	}
	ref := verifRef
	verifMu.Unlock()
	if !ref {
		// widen scheduling windows: a wrong dependency shows as a stale read
		time.Sleep(200 * time.Microsecond)
	}
}
func verifKey(prefix string, args []int64) string {
	if len(args) == 0 {
		return prefix
	}
	s := make([]string, len(args))
	for i, a := range args {
		s[i] = fmt.Sprint(a)
	}
	return prefix + "(" + strings.Join(s, ",") + ")"
}
func verifModelOut(name string, args ...int64) int64 { return verifModel[verifKey("out_"+name, args)] }
func verifModelRes(name string, j int, args ...int64) int64 {
	return verifModel[verifKey(fmt.Sprintf("f_%s_%d_0", name, j), args)]
}
func verifB2I(b bool) int64 {
	if b {
		return 1
	}
	return 0
}

var _ = strings.Join
var _ = time.Sleep
var _ sync.Mutex


// ---- value types (one machine word each, so results are single uninterpreted terms) ----

type A int
type B int
type C int
type D int
type E int
type F int

// argument wrappers with a visible side effect (C15)
func argCtx(k int, v context.Context) context.Context { verifArgLog(k); return v }
func argA(k int, v A) A                               { verifArgLog(k); return v }
func argE(k int, v E) E                               { verifArgLog(k); return v }
func argB(k int, v B) B                               { verifArgLog(k); return v }
func argPD(k int, v *D) *D                            { verifArgLog(k); return v }
func argI(k int, v int) int                           { verifArgLog(k); return v }
func argBool(k int, v bool) bool                      { verifArgLog(k); return v }
func argS(k int, v []A) []A                           { verifArgLog(k); return v }
func wrapE(err error) E {
	if err != nil {
		return 1
	}
	return 0
}

// verifTry runs f and reports whether it panicked.
func verifTry(f func()) (panicked bool, val any) {
	defer func() {
		if r := recover(); r != nil {
			panicked = true
			val = r
		}
	}()
	f()
	return
}

// ---- user functions (bodies supplied by the engine) ----

func P1(p0 A) (bool) {
	verifLogCall("P1", int64(p0))
	switch verifModelOut("P1", int64(p0)) {
	case 2:
		panic(verifPanicValOf("P1"))
	}
	return verifModelRes("P1", 0, int64(p0)) != 0
}

func P2(p0 context.Context, p1 B) (bool) {
	verifLogCall("P2", 0, 0, int64(p1))
	switch verifModelOut("P2", int64(p1)) {
	case 2:
		panic(verifPanicValOf("P2"))
	}
	return verifModelRes("P2", 0, int64(p1)) != 0
}

func R1() (error) {
	verifLogCall("R1")
	switch verifModelOut("R1") {
	case 2:
		panic(verifPanicValOf("R1"))
	case 1:
		return verifErrOf("R1")
	}
	return nil
}

func R2(p0 context.Context) (error) {
	verifLogCall("R2", 0, 0)
	switch verifModelOut("R2") {
	case 2:
		panic(verifPanicValOf("R2"))
	case 1:
		return verifErrOf("R2")
	}
	return nil
}

func R3() () {
	verifLogCall("R3")
	switch verifModelOut("R3") {
	case 2:
		panic(verifPanicValOf("R3"))
	}
	return 
}

func R4(p0 context.Context) () {
	verifLogCall("R4", 0, 0)
	switch verifModelOut("R4") {
	case 2:
		panic(verifPanicValOf("R4"))
	}
	return 
}

func S1(p0 C) () {
	verifLogCall("S1", int64(p0))
	switch verifModelOut("S1", int64(p0)) {
	case 2:
		panic(verifPanicValOf("S1"))
	}
	return 
}

func T1(p0 A) (B, error) {
	verifLogCall("T1", int64(p0))
	switch verifModelOut("T1", int64(p0)) {
	case 2:
		panic(verifPanicValOf("T1"))
	case 1:
		return B(verifModelRes("T1", 0, int64(p0))), verifErrOf("T1")
	}
	return B(verifModelRes("T1", 0, int64(p0))), nil
}

func T2(p0 context.Context, p1 B) (C) {
	verifLogCall("T2", 0, 0, int64(p1))
	switch verifModelOut("T2", int64(p1)) {
	case 2:
		panic(verifPanicValOf("T2"))
	}
	return C(verifModelRes("T2", 0, int64(p1)))
}

func T3(p0 B, p1 C) (D, error) {
	verifLogCall("T3", int64(p0), int64(p1))
	switch verifModelOut("T3", int64(p0), int64(p1)) {
	case 2:
		panic(verifPanicValOf("T3"))
	case 1:
		return D(verifModelRes("T3", 0, int64(p0), int64(p1))), verifErrOf("T3")
	}
	return D(verifModelRes("T3", 0, int64(p0), int64(p1))), nil
}

func T4(p0 A) (B, C, error) {
	verifLogCall("T4", int64(p0))
	switch verifModelOut("T4", int64(p0)) {
	case 2:
		panic(verifPanicValOf("T4"))
	case 1:
		return B(verifModelRes("T4", 0, int64(p0))), C(verifModelRes("T4", 1, int64(p0))), verifErrOf("T4")
	}
	return B(verifModelRes("T4", 0, int64(p0))), C(verifModelRes("T4", 1, int64(p0))), nil
}

func T5(p0 B) (D) {
	verifLogCall("T5", int64(p0))
	switch verifModelOut("T5", int64(p0)) {
	case 2:
		panic(verifPanicValOf("T5"))
	}
	return D(verifModelRes("T5", 0, int64(p0)))
}

func T6(p0 C) (E) {
	verifLogCall("T6", int64(p0))
	switch verifModelOut("T6", int64(p0)) {
	case 2:
		panic(verifPanicValOf("T6"))
	}
	return E(verifModelRes("T6", 0, int64(p0)))
}

func T7(p0 D, p1 E) (F, error) {
	verifLogCall("T7", int64(p0), int64(p1))
	switch verifModelOut("T7", int64(p0), int64(p1)) {
	case 2:
		panic(verifPanicValOf("T7"))
	case 1:
		return F(verifModelRes("T7", 0, int64(p0), int64(p1))), verifErrOf("T7")
	}
	return F(verifModelRes("T7", 0, int64(p0), int64(p1))), nil
}

func T8(p0 B) (D, error) {
	verifLogCall("T8", int64(p0))
	switch verifModelOut("T8", int64(p0)) {
	case 2:
		panic(verifPanicValOf("T8"))
	case 1:
		return D(verifModelRes("T8", 0, int64(p0))), verifErrOf("T8")
	}
	return D(verifModelRes("T8", 0, int64(p0))), nil
}

func T9(p0 B, p1 E) (D) {
	verifLogCall("T9", int64(p0), int64(p1))
	switch verifModelOut("T9", int64(p0), int64(p1)) {
	case 2:
		panic(verifPanicValOf("T9"))
	}
	return D(verifModelRes("T9", 0, int64(p0), int64(p1)))
}

func X1(p0 int, p1 A) (error) {
	verifLogCall("X1", int64(p0), int64(p1))
	switch verifModelOut("X1", int64(p0), int64(p1)) {
	case 2:
		panic(verifPanicValOf("X1"))
	case 1:
		return verifErrOf("X1")
	}
	return nil
}

func X2(p0 A) () {
	verifLogCall("X2", int64(p0))
	switch verifModelOut("X2", int64(p0)) {
	case 2:
		panic(verifPanicValOf("X2"))
	}
	return 
}

func X3(p0 context.Context, p1 int, p2 A) (error) {
	verifLogCall("X3", 0, 0, int64(p1), int64(p2))
	switch verifModelOut("X3", int64(p1), int64(p2)) {
	case 2:
		panic(verifPanicValOf("X3"))
	case 1:
		return verifErrOf("X3")
	}
	return nil
}

func XE() (error) {
	verifLogCall("XE")
	switch verifModelOut("XE") {
	case 2:
		panic(verifPanicValOf("XE"))
	case 1:
		return verifErrOf("XE")
	}
	return nil
}

func XE2(p0 context.Context) () {
	verifLogCall("XE2", 0, 0)
	switch verifModelOut("XE2") {
	case 2:
		panic(verifPanicValOf("XE2"))
	}
	return 
}


