package flows

import (
	"fmt"
	"testing"
)

func TestVerifReplay(t *testing.T) {
	for attempt := 1; attempt <= 300; attempt++ {
		verifReset()
		verifHarness_f07()
		if len(verifFailed) > 0 {
			fmt.Printf("REPRODUCED property=C15 attempts=%d assertion(s) %v failed on the real build: the task receives the value computed from the user's err variable\n", attempt, verifFailed)
			return
		}
	}
	fmt.Printf("NOT-REPRODUCED property=C15\n")
	t.Fail()
}
